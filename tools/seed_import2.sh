#!/bin/bash
# import second-round deliverables: seed_import2.sh C14  (from /tmp/wt/C14b/_seeded -> seeded/C14-m3, C14-m4)
pid=$1
for k in 1 2 3; do
  src=/tmp/wt/${pid}b/_seeded
  [ -f $src/m$k.diff ] || continue
  n=$((k+2))
  d=/verif/seeded/$pid-m$n; mkdir -p $d
  cp $src/m$k.diff $d/patch.diff; cp $src/demo$k.py $d/demo.py; cp $src/m$k.md $d/description.md
  python3 - "$pid" "$d" <<'PY'
import json, sys, os
pid, d = sys.argv[1:3]
p = os.path.join(d, "meta.json")
m = json.load(open(p)) if os.path.exists(p) else {}
m.setdefault("property", pid)
m.setdefault("source", "independent sub-agent (second round), given only the property text and a scratch worktree of the repaired tree")
m.setdefault("needs_to_manifest", open(os.path.join(d, "description.md")).read()[:1500])
json.dump(m, open(p, "w"), indent=1)
PY
done
ls /verif/seeded | grep $pid
