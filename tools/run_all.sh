#!/bin/bash
# run every registered check once (tier $1, default quick), sequentially; log per check under /tmp/vchk-logs
tier=${1:-quick}; shift
mkdir -p /tmp/vchk-logs
ids=${@:-$(python3 -c "import json;print(' '.join(c['property_id'] for c in json.load(open('/verif/MANIFEST.json'))['checks']))")}
for id in $ids; do
  s=$(date +%s)
  /verif/vchk $id --tier $tier > /tmp/vchk-logs/$id.$tier.log 2>&1
  echo "$id exit=$? $(( $(date +%s) - s ))s $(grep "^$id tier" /tmp/vchk-logs/$id.$tier.log | cut -c1-200)"
done
