#!/bin/bash
# import deliverables of a later seeding round: seed_import3.sh C10 /tmp/wt/C10c/_seeded
# (m1.diff/demo1.py/m1.md, m2... -> seeded/<pid>-m<next free number>)
pid=$1; src=$2
for k in 1 2 3; do
  [ -f $src/m$k.diff ] || continue
  n=1; while [ -d /verif/seeded/$pid-m$n ]; do n=$((n+1)); done
  d=/verif/seeded/$pid-m$n; mkdir -p $d
  cp $src/m$k.diff $d/patch.diff; cp $src/demo$k.py $d/demo.py; cp $src/m$k.md $d/description.md
  python3 - "$pid" "$d" <<'PY'
import json, sys, os
pid, d = sys.argv[1:3]
p = os.path.join(d, "meta.json")
m = {"property": pid,
     "source": "independent sub-agent (third round), given only the property record and a scratch worktree of the repaired tree",
     "needs_to_manifest": open(os.path.join(d, "description.md")).read()[:1500]}
json.dump(m, open(p, "w"), indent=1)
PY
  echo imported $d
done
