#!/usr/bin/env python3
"""Regenerate /verif/MANIFEST.json from the table below (run after adding a check)."""
import json
import os

HERE = os.path.dirname(os.path.dirname(os.path.abspath(__file__)))

TECH_S = "symbolic execution of the real Python code over z3 reals (object-dtype arrays through numpy/xarray) + SMT: unsat of the negated claim = holds within the stated bounds; every model is replayed in floats on the unpatched code"
NOTE_S = "reals stand in for floats (IEEE rounding / float32 storage outside the claim, every counterexample is replayed in floats); grids and sizes from the stated family only; z3 trusted; stubs listed in the evidence are part of the claim"

CHECKS = {
    "C01": dict(engine="S", text="bounded symbolic execution of the real accessor methods with every spectral bin a symbolic real >= 0 on a fixed family of grids; z3 proves impl == defining integral for all such spectra or returns a spectrum that is replayed in floats", ref="6/C01"),
    "C02": dict(engine="S", text="the real _peak / xrstats / npstats peak code is executed on symbolic 1-D and 2-D spectra (every path = one ordering pattern of the bins); on every path z3 proves the returned period/frequency/direction/spread/alpha/gamma is the one of a highest interior strict local maximum (NaN iff none), with the parabola vertex strictly between the neighbours", ref="6/C02"),
    "C03": dict(engine="S", text="np_ptm1/np_ptm2/np_ptm3 (real code objects) are executed on symbolic spectra, wind speed and cutoff with the watershed replaced by every label map its contract allows on the grid; on every path z3 proves bin-is-input-or-zero, no shared bin, conservation (or <= with the dropped swells the smallest), the requested count, the wind-sea fraction rule, and Hs ordering with empties last; the accessor wrappers are checked for count/order per position", ref="6/C03"),
    "C04": dict(engine="L", text="the LLVM IR clang emits for the current specpart.c is interpreted symbolically on spectra whose bins are symbolic reals; every feasible path (level assignment x tie-breaks) ends in a concrete label map that an independent flood-fill reference must accept (all bins labelled, one connected basin per regional maximum of the discretised field, circular in direction), re-run on every circular shift; the 3x3 grid with three levels is cut into 16 sub-trees explored by separate workers under a time box; neighbour table checked for every shape up to 8x8; consecutive calls with different shapes against a fresh state", ref="6/C04",
                note="real arithmetic stands in for the float discretisation; clang's -O0 IR trusted; counterexamples are replayed on an AddressSanitizer/UBSan build of the real C file", technique="symbolic execution of the compiler's IR (own interpreter) + SMT for path feasibility, memory-safety and overflow obligations; counterexample replay under sanitizers"),
    "C05": dict(engine="S", text="relational symbolic runs of every catalogue operation on the same symbolic data stored with dims transposed, directions rolled by every offset and reversed: z3 proves label-for-label equality; for the C boundary the strides numpy really hands to specpart.partition (recorded on 10 layout/dtype variants through the real wrappers) are checked by SMT against the address map of the C code and mismatches are replayed against the real extension", ref="6/C05"),
    "C06": dict(engine="S", text="batched symbolic datasets with independent variables per position: z3 proves op(batch)[p] == op(batch[p]) for every catalogue operation and a syntactic support check shows the result at p mentions no variable of another position; Dataset accessor == efth accessor", ref="6/C06"),
    "C08": dict(engine="S", text="regrid_spec / interp / rotate executed on symbolic spectra with the xarray interpolation replaced by a differential-tested 1-D linear contract; z3 proves the output equals the periodic-linear reference bin by bin (exact on nodes, both seam neighbours used), non-negativity, zero above fmax, Hs conservation under maintain_m0, whole-bin rotation == circular shift (ascending, rotated and descending storage, integer direction coordinates with fractional targets)", ref="6/C08"),
    "C09": dict(engine="S", text="PTM4 with symbolic wind speed (the boundary celerity = wind component is a satisfying assignment, not a sampled accident), bbox with all box limits symbolic, split/PTM5 on listed on- and off-node cutoffs: z3 proves every bin is assigned by the stated rule, partitions are disjoint and sum to the input, overlapping boxes raise", ref="6/C09"),
    "C10": dict(engine="S", text="relational symbolic runs of the real statistics on S and kS (k symbolic for polynomial statistics), on S and S with relabelled directions, plus Cauchy-Schwarz bounds proven as generic lemmas and instantiated on the implementation's outputs, and scale_by_hs with symbolic coefficients and symbolic hs / tp / dpm windows (a missing tp or dpm leaves the spectrum untouched)", ref="6/C10"),
    "C11": dict(engine="S", text="to_swan -> a real file on disk -> read_swan with every energy density a symbolic real that travels through the file as a token under the printf/strtod contract (half a unit of the last printed digit): z3 proves each cell comes back at the position it was written from within half a unit of its block's FACTOR, zero and missing spectra are preserved, for station and lat-lon grid layouts with unequal sizes, chunked and gzip writing; WW3 writer/reader pair through the captured dataset; CF packing parameters of the netCDF writer over a symbolic density", ref="6/C11",
                note="the text of each number is a contract stub (documented printf/strtod behaviour); Octopus, Funwave and JSON pairs are outside the claim; reals stand in for floats"),
    "C12": dict(engine="S", text="from_ww3/from_ncswan/from_wwm/from_era5/from_ndbc and the read_dataset dispatcher executed on in-memory native datasets with symbolic densities, winds and directional moments: z3 proves every output bin is the unit-converted native bin at its converted physical direction, the variance integrals in native and converted units agree, winds are speed / coming-from direction, missing ERA5 values become 0", ref="6/C12"),
    "C13": dict(engine="S", text="PARTIAL: (a) the reconstruction kernels (NDBC ASCII and netCDF first/second moment formula, Cartwright spreading used by Spotter/Datawell) are executed on symbolic frequency spectra and directional moments and z3 proves the 2-D result integrates over direction to the 1-D spectrum (angle-addition split of cos over the uniform circle), for direction grids supplied in ascending, descending, seam-crossing and shuffled storage order; (b) read_swan is run on real files produced by an independent reference encoder in which FACTOR and every table entry are symbolic tokens: value = FACTOR x entry (/ rho g for energy units) at its time, location, frequency and nautical direction (CDIR converted), ZERO -> 0, NODATA -> missing, in every block order. Header/column/time parsing of the other instrument formats is NOT claimed", ref="6/C13",
                note="partial scope stated in the evidence (outside_claim): only the numerical kernels and the SWAN numeric path; reals stand in for floats"),
    "C14": dict(engine="S", text="Dataset.spec.sel (nearest, idw, bbox) executed through the public API with symbolic station and query longitudes/latitudes and symbolic tolerance, both longitude conventions independently as preconditions: z3 proves the selected stations are those of the circular-distance / box oracle, weights are 1/d, failures happen exactly beyond the tolerance, longitudes come back in the query's convention - also for a selection made after an earlier selection on the same dataset object, including one made with the caller's own query arrays", ref="6/C14"),
    "C15": dict(engine="S", text="the real construction functions are executed with symbolic hs, fp, gamma, alpha, gw, mean direction and spread; exp / x**y / cos of symbolic arguments are uninterpreted functions with positivity and range axioms, so z3 proves the Hs-scaling and the unit integral of the spreading function for EVERY positive shape value, non-negativity, jonswap(gamma=1) == pierson_moskowitz, TMA at 5000 m == JONSWAP (depth factor evaluated in floats), and that shape x spreading integrates back to the 1-D shape", ref="6/C15"),
    "C16": dict(engine="S", text="the real smooth_spec (xarray rolling mean) is executed on symbolic spectra for every window/grid in the bound; z3 proves each output bin equals the circular window mean (or lies within the neighbourhood's min/max at the edges), identity for window 1, commutation with circular shifts; even windows must raise", ref="6/C16"),
}

CHECKS["C17"] = dict(engine="S", text="every catalogue operation, the three selections (symbolic query longitudes in either convention passed as caller-owned numpy buffers), the reader helpers and the stacking helper are executed on symbolic data along every feasible path; deep snapshots of all argument objects (cells as terms, buffers, coordinates, attributes, encodings, dims, names) taken before the call must still describe them afterwards", ref="6/C17")

CHECKS["C18"] = dict(engine="S+X+L", text="all histories up to the bound over {accessor calls, in-place replacement of efth, in-place relabelling of dir with the same / another spacing, in-place relabelling of freq with other bin widths, unknown-statistic call, reader call, transform call} are executed on one symbolic object (DataArray and Dataset); afterwards every observed statistic must be solver-equal to the one computed on a freshly built object with the same contents and the Dataset accessor must agree with its efth variable; CrossHair checks that AttrDict lookups do not change membership; peak statistics and site selection are observed after call - edit in place - call histories; the static buffers of the C extension by consecutive partition calls on different shapes (Engine L)", ref="6/C18")

CHECKS["C19"] = dict(engine="S", text="inductive decomposition: the real match_consecutive_partitions is executed on symbolic peak frequencies/directions and thresholds (merging arrays keep the elementwise threshold tests as terms, forks only at the real control flow) and z3 proves the step postcondition on every path; the real np_track_partitions is then run with the matcher replaced by every vector that postcondition allows (propagation lemma: uniqueness, 0..N-1 in order of appearance, no reappearance) and once unmodified on symbolic statistics (glue: slices, threshold indexing, dt); the xarray wrapper per site", ref="6/C19")
CHECKS["C20"] = dict(engine="S+L", text="exception monitor over symbolic sweeps of every statistic/transform/rule-based partition on the degenerate families (zero, constant, single bin, peak on the first/last frequency, 1-2 directions, 1-3 frequencies): any exception on a feasible path is replayed and reported; invalid arguments must raise ValueError; the IR of specpart.c is executed with an in-bounds obligation on every load/store, an int32-overflow obligation on every add/sub/mul, initialised-read, use-after-free and instruction-budget checks, counterexamples replayed under ASan/UBSan; the level-index clamp is proved for all doubles as a QF_FP query", ref="6/C20",
                      technique="symbolic execution (Python code over z3 reals; compiler IR of the C file with memory/overflow obligations) + SMT, QF_FP lemma, sanitizer replay")

NOT_APPLICABLE = {
    "C07": "dask graph construction, rechunking and thread schedules live in dask/xarray internals; no engine here can make chunkings or thread interleavings symbolic (z3 is not thread safe, Engine S pins the synchronous scheduler) - see DESIGN.md section 7",
}

PENDING = "check under construction in this session (planned: solver-based, see DESIGN.md section 6); not claimed until its command is registered"


def main():
    checks = []
    for pid in sorted(CHECKS):
        c = CHECKS[pid]
        checks.append({
            "property_id": pid,
            "quick_cmd": "./vchk %s --tier quick" % pid,
            "thorough_cmd": "./vchk %s --tier thorough" % pid,
            "evidence_file": "/verif/evidence/%s.json" % pid,
            "replay_cmd_template": "./vchk %s --replay {path}" % pid,
            "engine": c["engine"],
            "level_claimed": {"category": c.get("level", "model_checking"), "text": c["text"], "design_ref": "DESIGN.md section " + c["ref"]},
            "level_note": c.get("note", NOTE_S),
            "technique": c.get("technique", TECH_S),
        })
    na = [{"property_id": p, "reason": r} for p, r in sorted(NOT_APPLICABLE.items())]
    for i in range(1, 21):
        p = "C%02d" % i
        if p not in CHECKS and p not in NOT_APPLICABLE:
            na.append({"property_id": p, "reason": PENDING})
    engines = [
        {"name": "S", "path": "vt/symreal", "serves_properties": sorted(p for p, c in CHECKS.items() if "S" in c["engine"]),
         "kind_free_text": "symbolic reals (z3) in object-dtype arrays pushed through the real numpy/xarray/wavespectra code; decision-replay path explorer; obligations decided by z3, counterexamples replayed in floats on the unpatched code"},
        {"name": "L", "path": "vt/llsym", "serves_properties": sorted(p for p, c in CHECKS.items() if "L" in c["engine"]),
         "kind_free_text": "symbolic interpreter of the LLVM IR that clang emits for specpart.c on every run (bounds-checked memory, overflow obligations, forking on symbolic branches)"},
        {"name": "X", "path": "vt/xh", "serves_properties": sorted(p for p, c in CHECKS.items() if "X" in c["engine"]),
         "kind_free_text": "CrossHair contracts on the pure-Python pieces"},
    ]
    m = {
        "version": 1,
        "setup_cmd": "./vchk --setup",
        "hooks": {
            "guard": "WAVESPECTRA_VERIF",
            "enable": "no source hooks: all interception is done from the harness by re-binding functions / patching module attributes for the duration of a run",
            "baseline_off_cmd": "cd /repo && /venv/bin/python -m pytest -ra -q -p no:cacheprovider --timeout=900 --continue-on-collection-errors",
            "source_commits": [],
            "add_only": True,
        },
        "engines": [e for e in engines if e["serves_properties"]],
        "checks": checks,
        "not_applicable": na,
        "notes": "known findings and repaired defects: /verif/known_findings.jsonl; seeded breaking changes used to test the checks: /verif/seeded/; exit code 3 = the machinery itself failed (never a success)",
    }
    with open(os.path.join(HERE, "MANIFEST.json"), "w") as f:
        json.dump(m, f, indent=1)
    print("checks:", [c["property_id"] for c in checks])


if __name__ == "__main__":
    main()
