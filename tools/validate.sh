#!/bin/bash
# validate MANIFEST.json and every evidence file against the given schemas (jsonschema from the tooling venv)
python3-vt - <<'PY'
import json, glob, jsonschema, sys
m = json.load(open('/verif/MANIFEST.json'))
jsonschema.validate(m, json.load(open('/root/.vp/MANIFEST.schema.json')))
sch = json.load(open('/root/.vp/EVIDENCE.schema.json'))
bad = 0
ids = [c['property_id'] for c in m['checks']]
for i in ids:
    p = '/verif/evidence/%s.json' % i
    try:
        e = json.load(open(p)); jsonschema.validate(e, sch)
        c = e['coverage']
        print(i, e['tier'], 'wall=%ss' % e['wall_s'], 'paths=%s' % c['states'], 'obl=%s/%s' % (c['discharged'], c['obligations']), 'viol=%s' % e['violations'], 'head=%s' % c.get('repo_head'), 'partial=%s' % c.get('partial_run'))
    except Exception as ex:
        bad += 1; print('BAD', i, str(ex)[:200])
print('manifest ok; evidence problems:', bad)
sys.exit(1 if bad else 0)
PY
