#!/usr/bin/env python3
"""Confirm a seeded breaking change and run the checks against it.

usage: seed_eval.py SEED_DIR [--checks C01,C05] [--tier quick] [--skip-tests]
SEED_DIR = /verif/seeded/<id> containing patch.diff, demo.py, meta.json (property, needs, ...)

Steps (all in a scratch worktree of /repo HEAD under /tmp, removed afterwards):
  1. demo on the clean tree must exit 0
  2. git apply patch.diff; rebuild the C extension if C sources changed
  3. demo must exit 1; the 222 baseline tests must still pass
  4. run ./vchk <check> with VERIF_REPO=<scratch>; record exit code and VIOLATION lines
Results are merged into SEED_DIR/meta.json.
"""
import argparse
import json
import os
import shutil
import subprocess
import sys
import time

VERIF = os.path.dirname(os.path.dirname(os.path.abspath(__file__)))


def sh(cmd, cwd=None, env=None, timeout=3600):
    p = subprocess.run(cmd, cwd=cwd, env=env, shell=isinstance(cmd, str), capture_output=True, text=True, timeout=timeout)
    return p.returncode, (p.stdout + p.stderr)


def main():
    ap = argparse.ArgumentParser()
    ap.add_argument("seed_dir")
    ap.add_argument("--checks")
    ap.add_argument("--tier", default="quick")
    ap.add_argument("--skip-tests", action="store_true")
    ap.add_argument("--only")
    a = ap.parse_args()
    sd = os.path.abspath(a.seed_dir)
    meta_p = os.path.join(sd, "meta.json")
    meta = json.load(open(meta_p)) if os.path.exists(meta_p) else {}
    sid = os.path.basename(sd)
    wt = "/tmp/seedeval-%s-%d" % (sid, os.getpid())
    rc, out = sh(["git", "-C", "/repo", "worktree", "add", "-q", "--detach", wt, "HEAD"])
    assert rc == 0, out
    try:
        for so in os.listdir("/repo/wavespectra/partition"):
            if so.endswith(".so"):
                shutil.copy(os.path.join("/repo/wavespectra/partition", so), os.path.join(wt, "wavespectra/partition", so))
        demo = os.path.join(sd, "demo.py")
        env = dict(os.environ, PYTHONDONTWRITEBYTECODE="1", PYTHONPATH=wt)
        rc0, out0 = sh(["/venv/bin/python", demo], cwd=wt, env=env)
        rc, out = sh(["git", "apply", os.path.join(sd, "patch.diff")], cwd=wt)
        if rc != 0:
            print("PATCH DOES NOT APPLY:\n" + out)
            meta["confirmed"] = False
            meta["confirm_note"] = "patch does not apply on repo HEAD: " + out[-300:]
            json.dump(meta, open(meta_p, "w"), indent=1)
            return 2
        patch = open(os.path.join(sd, "patch.diff")).read()
        if ".c" in patch and "specpart" in patch:
            rc, out = sh(["/venv/bin/python", "setup.py", "build_ext", "--inplace"], cwd=wt)
            assert rc == 0, out[-2000:]
        rc1, out1 = sh(["/venv/bin/python", demo], cwd=wt, env=env)
        print("demo clean rc=%d, mutated rc=%d" % (rc0, rc1))
        tests_ok = None
        if not a.skip_tests:
            rc, out = sh([sys.executable, os.path.join(VERIF, "tools/baseline_check.py"), wt])
            tests_ok = rc == 0
            print(out.strip().splitlines()[0])
        meta.update({"demo_clean_rc": rc0, "demo_mutated_rc": rc1, "demo_mutated_output": out1[-600:], "baseline_tests_pass_with_patch": tests_ok,
                     "confirmed": rc0 == 0 and rc1 == 1 and tests_ok is not False, "repo_head": sh(["git", "-C", "/repo", "rev-parse", "--short", "HEAD"])[1].strip()})
        checks = (a.checks.split(",") if a.checks else meta.get("checks") or [meta.get("property")])
        res = meta.setdefault("check_results", {})
        for c in checks:
            t0 = time.time()
            cmd = [os.path.join(VERIF, "vchk"), c, "--tier", a.tier, "--no-evidence"] + (["--only", a.only] if a.only else [])
            rc, out = sh(cmd, cwd=VERIF, env=dict(os.environ, VERIF_REPO=wt), timeout=7200)
            lines = sorted([l for l in out.splitlines() if l.startswith(("VIOLATION", "MACHINERY", "INCONCLUSIVE", "KNOWN"))], key=lambda l: not l.startswith("VIOLATION"))
            res[c + ":" + a.tier] = {"exit": rc, "lines": [l[:300] for l in lines[:8]], "wall_s": round(time.time() - t0), "summary": next((l for l in out.splitlines() if l.startswith(c + " tier=")), "")}
            print("check %s -> exit %d (%ds)\n   %s" % (c, rc, time.time() - t0, "\n   ".join(l[:200] for l in lines[:4])))
        meta["detected_by"] = sorted({k.split(":")[0] for k, v in res.items() if v["exit"] == 1})
        json.dump(meta, open(meta_p, "w"), indent=1)
    finally:
        sh(["git", "-C", "/repo", "worktree", "remove", "--force", wt])
        shutil.rmtree(wt, ignore_errors=True)
    return 0


if __name__ == "__main__":
    sys.exit(main())
