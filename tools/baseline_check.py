#!/usr/bin/env python3
"""Run the repository test suite in a tree and compare with the 222 stable-pass baseline.
usage: baseline_check.py [TREE]   (default /repo). exit 0 iff every baseline test passes."""
import json, os, subprocess, sys, tempfile, xml.etree.ElementTree as ET
tree = sys.argv[1] if len(sys.argv) > 1 else "/repo"
base = set(json.load(open("/root/.vp/BASELINE.json"))["stable_pass"])
x = tempfile.mktemp(suffix=".xml")
subprocess.run(["/venv/bin/python", "-m", "pytest", "-q", "-p", "no:cacheprovider", "--timeout=900", "--continue-on-collection-errors", "--junitxml=" + x],
               cwd=tree, stdout=subprocess.DEVNULL, stderr=subprocess.DEVNULL, env=dict(os.environ, PYTHONDONTWRITEBYTECODE="1"))
passed = set()
for tc in ET.parse(x).getroot().iter("testcase"):
    if not any(c.tag in ("failure", "error", "skipped") for c in tc):
        passed.add(tc.get("classname") + "::" + tc.get("name"))
os.remove(x)
missing = sorted(base - passed)
print("baseline tests passing: %d/%d" % (len(base & passed), len(base)))
for m in missing: print("  NOT PASSING:", m)
sys.exit(1 if missing else 0)
