#!/bin/bash
# run seed_eval for the given seed ids, N at a time: seed_batch.sh N id1 id2 ...
n=$1; shift
mkdir -p /tmp/selog
printf '%s\n' "$@" | xargs -P $n -I{} sh -c 'python3 /verif/tools/seed_eval.py /verif/seeded/{} > /tmp/selog/{}.log 2>&1'
