#!/bin/bash
# import the deliverables of a seeding agent: seed_import.sh C01  -> /verif/seeded/C01-m1, C01-m2
pid=$1
for k in 1 2 3; do
  src=/tmp/wt/$pid/_seeded
  [ -f $src/m$k.diff ] || continue
  d=/verif/seeded/$pid-m$k; mkdir -p $d
  cp $src/m$k.diff $d/patch.diff; cp $src/demo$k.py $d/demo.py; cp $src/m$k.md $d/description.md
  python3 - "$pid" "$d" <<'PY'
import json, sys, os
pid, d = sys.argv[1:3]
p = os.path.join(d, "meta.json")
m = json.load(open(p)) if os.path.exists(p) else {}
m.setdefault("property", pid)
m.setdefault("source", "independent sub-agent given only the property text and a scratch worktree")
m.setdefault("needs_to_manifest", open(os.path.join(d, "description.md")).read()[:1500])
json.dump(m, open(p, "w"), indent=1)
PY
done
ls /verif/seeded | grep $pid
