import warnings; warnings.filterwarnings("ignore")
import numpy as np, z3, time, sys, collections, types
import sym
from sym import Sym, explore, toz
from symarr import SymArray, symarray
from wavespectra.partition import tracking

class NPProxy:
    def __init__(self, **over): self.__dict__['_o']=over
    def __getattr__(self, k):
        if k in self._o: return self._o[k]
        return getattr(np, k)
def isnan(a):
    a = np.asarray(a, dtype=object)
    out = np.zeros(a.shape, dtype=bool)
    for idx, x in np.ndenumerate(a): out[idx] = isinstance(x, float) and x != x
    return out if out.shape else bool(out)
def rebind(fn, **globs):
    g = dict(fn.__globals__); g.update(globs)
    return types.FunctionType(fn.__code__, g, fn.__name__, fn.__defaults__, fn.__closure__)

NP = int(sys.argv[1])
def t_match(ctx):
    fp = symarray((NP,2), "fp", ctx, 0.01, 1); dpm = symarray((NP,2), "dpm", ctx, 0, 359)
    sea = z3.Real("dfp_sea"); sw = z3.Real("dfp_swell"); ctx.assume(sw > 0)
    f = rebind(tracking.match_consecutive_partitions, np=NPProxy(isnan=isnan))
    m = f(fp, dpm, Sym(sea), Sym(sw), 30, 20)
    return np.asarray(m).tolist()
t0=time.time()
res = explore(t_match, max_paths=20000)
print("NP", NP, "match paths", len(res), "t=%.1f"%(time.time()-t0))
print(collections.Counter(str(r[1]) for r in res).most_common(8))
