import z3, time
mk, mth, n, i, j = z3.Ints("mk mth n i j")
base = [mk>=1, mk<=64, mth>=1, mth<=64, n>=0, n<mk*mth, j == n/mk, i == n - j*mk]
def chk(name, extra, B=base):
    s = z3.Solver(); s.set("timeout", 60000); s.add(*B); s.add(*extra)
    t=time.time(); r=s.check(); print(name, r, "%.2fs"%(time.time()-t)); 
    if r==z3.sat: print("   ", s.model())
nspec = mk*mth
# bottom-left with wrap: i!=0 && j==0 -> n-1+mk*(mth-1) in range and equals (i-1) + mk*(mth-1)
v = n - 1 + mk*(mth-1)
chk("bl-wrap in range", [i!=0, j==0, z3.Or(v<0, v>=nspec)])
chk("bl-wrap correct", [i!=0, j==0, v != (i-1) + mk*(mth-1)])
# top-right wrap: i != mk-1 && j == mth-1 : n+1-mk*(mth-1) == (i+1) + mk*0
v = n + 1 - mk*(mth-1)
chk("tr-wrap correct", [i!=mk-1, j==mth-1, v != (i+1)])
# mutated: off by one
v = n + 1 - mk*(mth)
chk("tr-wrap MUTANT", [i!=mk-1, j==mth-1, z3.Or(v<0, v>=nspec)])
# bitvector version
W=16
bmk, bmth, bn = z3.BitVecs("bmk bmth bn", W)
bj = z3.UDiv(bn, bmk); bi = bn - bj*bmk
Bb = [z3.UGE(bmk,1), z3.ULE(bmk,64), z3.UGE(bmth,1), z3.ULE(bmth,64), z3.ULT(bn, bmk*bmth)]
v = bn + 1 - bmk*(bmth-1)
s = z3.Solver(); s.add(*Bb); s.add(bi != bmk-1, bj == bmth-1, v != bi+1)
t=time.time(); print("BV tr-wrap correct", s.check(), "%.2fs"%(time.time()-t))
