import warnings; warnings.filterwarnings("ignore")
import numpy as np, time, z3, sys, itertools, collections
import sym, llsym
from llsym import parse, Interp, Violation
from sym import explore, PathAbort
glob, funcs = parse("sp_m2r.ll")

def run_partition(ctx, spec_rows, ihmax, it=None):
    it = it or Interp(glob, funcs, ctx)
    nk, nth = len(spec_rows), len(spec_rows[0])
    sp = it.mem.alloc(4*nk*nth, "spec"); ip = it.mem.alloc(4*nk*nth, "ipart")
    for i in range(nk):
        for j in range(nth):
            it.mem.objs[sp[0]]['cells'][4*(i*nth+j)] = spec_rows[i][j]
    it.call("partition", [sp, ip, nk, nth, ihmax])
    cells = it.mem.objs[ip[0]]['cells']
    return [[cells[4*(i + nk*j)] for j in range(nth)] for i in range(nk)], it

nk, nth, H = int(sys.argv[1]), int(sys.argv[2]), int(sys.argv[3])
viol = []
def f(ctx):
    vs = [[z3.Real(f"z_{i}_{j}") for j in range(nth)] for i in range(nk)]
    flat = [v for r in vs for v in r]
    for v in flat: ctx.assume(z3.And(v >= 0, v <= H))
    ctx.assume(z3.Or(*[v == 0 for v in flat])); ctx.assume(z3.Or(*[v == H for v in flat]))
    try:
        out, it = run_partition(ctx, vs, H+1)
    except Violation as e:
        viol.append(str(e)); return ("VIOL", str(e))
    m = ctx.solver.model() if ctx.solver.check()==z3.sat else None
    return (str(out), it.steps, it.nqueries + ctx.nsolver)
t0=time.time()
res = explore(f, max_paths=200000)
dt=time.time()-t0
c = collections.Counter(r[1][0] for r in res)
print(f"{nk}x{nth} ihmax={H+1}: paths={len(res)} distinct label maps={len(c)} t={dt:.1f}s  {dt/len(res)*1000:.0f} ms/path; violations={len(viol)}")
print("steps/path avg", sum(r[1][1] for r in res if r[1][0]!='VIOL')/len(res), "queries", sum(r[1][2] for r in res if r[1][0]!='VIOL'))
for k,v in list(c.items())[:5]: print("  ", k, v)
if viol: print(viol[:3])
