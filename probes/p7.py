import warnings; warnings.filterwarnings("ignore")
import numpy as np, xarray as xr, z3, time, sys, collections, types, os, tempfile, builtins
import dask; dask.config.set(scheduler='synchronous')
import sym
from sym import Sym, SymBool, explore, toz
import wavespectra
from wavespectra.core import swan as cswan
from wavespectra.input.swan import read_swan

TOK = {}
def newtok(s):
    k = f"@T{len(TOK)}@"; TOK[k] = s; return k
Sym.__format__ = lambda self, spec: newtok(("fmt", spec, self))

class NPProxy:
    def __init__(self, **over): self.__dict__['_o']=over
    def __getattr__(self, k):
        if k in self._o: return self._o[k]
        return getattr(np, k)
def isnan(a):
    if isinstance(a, Sym): return False
    a = np.asarray(a, dtype=object); out = np.zeros(a.shape, dtype=bool)
    for idx, x in np.ndenumerate(a): out[idx] = isinstance(x, float) and x != x
    return out if out.shape else bool(out)
def savetxt(fid, arr, fmt, delimiter=""):
    arr = np.atleast_2d(np.asarray(arr, dtype=object))
    for row in arr:
        fid.write("".join(" " + (newtok(("fmt", fmt, v)) if isinstance(v, Sym) else (fmt % v)) for v in row) + "\n")
def zeros(shape, *a, **k): 
    z = np.empty(shape, dtype=object); z[...] = 0.0; return z
def tokfloat(x):
    if isinstance(x, str) and x.strip() in TOK:
        kind, spec, v = TOK[x.strip()]
        if spec in ("%5.0f",):
            n = sym.CTX.fresh_real("n"); ni = z3.Int(str(n)+"i")
            sym.CTX.assume(z3.And(n == z3.ToReal(ni), n - v.e <= z3.RealVal("1/2"), v.e - n <= z3.RealVal("1/2")))
            return Sym(n)
        if spec == "0.8E":  # 9 significant digits: relative 5e-9
            n = sym.CTX.fresh_real("fac")
            sym.CTX.assume(z3.And(n >= v.e*(1-z3.RealVal("5e-9")), n <= v.e*(1+z3.RealVal("5e-9"))))
            return Sym(n)
        raise NotImplementedError(spec)
    return builtins.float(x)
cswan.np = NPProxy(isnan=isnan, savetxt=savetxt, zeros=zeros)
cswan.float = tokfloat

NLAT, NLON = int(sys.argv[1]), int(sys.argv[2])
def t_rt(ctx):
    TOK.clear()
    shape = (1, NLAT, NLON, 2, 2)
    data = np.empty(shape, dtype=object); vs = {}
    for idx in np.ndindex(shape):
        v = z3.Real("e_" + "_".join(map(str, idx))); ctx.assume(z3.And(v >= 0, v <= 100)); vs[idx] = v; data[idx] = Sym(v)
    ds = xr.Dataset({"efth": (("time","lat","lon","freq","dir"), data)},
        coords={"time":[np.datetime64("2020-01-01T00:00:00")], "lat": np.arange(NLAT)*1.0, "lon": 10+np.arange(NLON)*1.0, "freq":[0.1,0.2], "dir":[0.,180.]})
    d = tempfile.mkdtemp(); fn = os.path.join(d, "x.spec")
    ds.spec.to_swan(fn)
    out = read_swan(fn)
    bad = []
    s = z3.Solver(); s.add(*ctx.conds)
    for idx in np.ndindex(shape):
        o = out.efth.values[idx]
        if not isinstance(o, Sym): bad.append((idx, o)); continue
        # tolerance: half a unit of fac ~ max/9998 ; here just check |o - in| <= 100/9998
        s.push(); s.add(z3.Or(o.e - vs[idx] > z3.RealVal(100)/9998, vs[idx] - o.e > z3.RealVal(100)/9998)); r = s.check()
        if r != z3.unsat: bad.append((idx, str(r)))
        s.pop()
    import shutil; shutil.rmtree(d)
    return dict(out.sizes), bad[:4], len(bad)
t0=time.time()
res = explore(t_rt, max_paths=50)
print("paths", len(res), "t=%.1f"%(time.time()-t0))
for tr, r in res[:50]:
    if r[2] != 24 and r[2] != 4 or True: print(len(tr), r[1][:2], r[2])
