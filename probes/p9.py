import warnings; warnings.filterwarnings("ignore")
import numpy as np, z3, time, sys, collections, types, itertools
import sym
from sym import Sym, SymBool, explore, toz
from symarr import SymArray, symarray
from wavespectra.partition import partition as P
from wavespectra.core import npstats

class NPProxy:
    def __init__(self, **over): self.__dict__['_o']=over
    def __getattr__(self, k):
        if k in self._o: return self._o[k]
        return getattr(np, k)
class CastArray(np.ndarray):
    def astype(self, dtype, *a, **k):
        if self.dtype == object and np.dtype(dtype).kind == 'f': return np.ndarray.astype(self, object, *a, **k).view(CastArray)
        return np.ndarray.astype(self, dtype, *a, **k)
class FakeSpecpart:
    def __init__(self, lab): self.lab = lab; self.seen = None
    def partition(self, arr, ihmax):
        self.seen = (arr.shape, arr.strides, arr.flags['C_CONTIGUOUS']); return self.lab
def rebind(fn, **globs):
    g = dict(fn.__globals__); g.update(globs)
    return types.FunctionType(fn.__code__, g, fn.__name__, fn.__defaults__, fn.__closure__)

# patch Sym division: fork on zero denominator
_old = Sym.__truediv__
def div(self, o):
    if isinstance(o, Sym):
        if sym.CTX.decide(o.e == 0):
            return float('nan') if sym.CTX.decide(self.e == 0) else float('inf')
    return _old(self, o)
Sym.__truediv__ = div
def rdiv(self, o):
    if sym.CTX.decide(self.e == 0):
        return float('nan') if o == 0 else float('inf')
    return Sym(toz(o) / self.e)
Sym.__rtruediv__ = rdiv

freq = np.array([0.1, 0.2]); dirs = np.array([0., 180.])
nf, nd = 2, 2
labs = []
for k in (1,2,3):
    for t in itertools.product(range(1,k+1), repeat=nf*nd):
        if set(t) == set(range(1,k+1)): labs.append(np.array(t).reshape(nf,nd))
print("label maps", len(labs))
tot=0; t0=time.time(); bad=0
for lab in labs[:int(sys.argv[1])]:
    def h(ctx):
        spec = symarray((nf,nd), "s", ctx, 0)
        spec = spec.view(CastArray)
        cosw = [z3.Real(f"c{j}") for j in range(nd)]
        for c in cosw: ctx.assume(z3.And(c>=-1, c<=1))
        wspd = z3.Real("wspd"); ctx.assume(z3.And(wspd>=0, wspd<=50))
        fake = FakeSpecpart(lab)
        # stub cos of symbolic wdir by per-direction symbolic cosines
        def cos(x): 
            return np.array([Sym(c) for c in cosw], dtype=object)
        f = rebind(P.np_ptm1, specpart=fake, np=NPProxy(cos=cos))
        out = f(spec, spec, freq, dirs, Sym(wspd), 0.0, 30.0, swells=2)
        # assertion: each out bin is input or 0 ; sum == input
        s = z3.Solver(); s.set("timeout", 20000); s.add(*ctx.conds)
        viol = []
        for i in range(nf):
            for j in range(nd):
                cells = [toz(out[p][i][j]) for p in range(out.shape[0])]
                s.push(); s.add(sum(cells) != spec[i,j].e); r=s.check(); s.pop()
                if r != z3.unsat: viol.append(("sum", i, j, str(r)))
                for c in cells:
                    s.push(); s.add(z3.And(c != spec[i,j].e, c != 0)); r=s.check(); s.pop()
                    if r != z3.unsat: viol.append(("cell", i, j, str(r)))
        return out.shape, viol
    res = explore(h, max_paths=5000)
    tot += len(res); bad += sum(1 for r in res if r[1][1])
print("paths", tot, "viol paths", bad, "t=%.1f"%(time.time()-t0))
