import warnings; warnings.filterwarnings("ignore")
import numpy as np, xarray as xr, z3, time, sys, dask
dask.config.set(scheduler='synchronous')
import sym
from sym import Sym, explore, toz
from wavespectra.partition import tracking
from wavespectra.core import select
import types

class NPProxy:
    def __init__(self, **over): self.__dict__['_o']=over
    def __getattr__(self, k):
        if k in self._o: return self._o[k]
        return getattr(np, k)

def isnan(a):
    a = np.asarray(a, dtype=object)
    out = np.zeros(a.shape, dtype=bool)
    for idx, x in np.ndenumerate(a):
        out[idx] = isinstance(x, float) and x != x
    return out if out.shape else bool(out)

def rebind(fn, **globs):
    g = dict(fn.__globals__); g.update(globs)
    return types.FunctionType(fn.__code__, g, fn.__name__, fn.__defaults__, fn.__closure__)

def t_match(ctx):
    npart = 2
    fp = np.empty((npart, 2), dtype=object); dpm = np.empty((npart,2), dtype=object)
    for i in range(npart):
        for j in range(2):
            f = z3.Real(f"fp_{i}_{j}"); d = z3.Real(f"dpm_{i}_{j}")
            ctx.assume(z3.And(f > 0, f < 1, d >= 0, d < 360))
            fp[i,j] = Sym(f); dpm[i,j] = Sym(d)
    sea = z3.Real("dfp_sea"); sw = z3.Real("dfp_swell"); ctx.assume(sw > 0)
    f = rebind(tracking.match_consecutive_partitions, np=NPProxy(isnan=isnan))
    m = f(fp, dpm, Sym(sea), Sym(sw), 30, 20)
    return m.tolist()

t0=time.time()
try:
    res = explore(t_match, max_paths=3000)
    print("match paths", len(res), "t=%.1f"%(time.time()-t0))
    import collections
    print(collections.Counter(str(r[1]) for r in res))
except Exception:
    import traceback; traceback.print_exc()
