import warnings; warnings.filterwarnings("ignore")
import numpy as np, xarray as xr, z3, time, sys, collections, types, itertools
import dask; dask.config.set(scheduler='synchronous')
import sym
from sym import Sym, SymBool, explore, toz
import wavespectra
from wavespectra.core import xrstats, npstats

def has_sym(a):
    a = np.asarray(a)
    return a.dtype == object
_orig_astype = xr.DataArray.astype
def astype(self, dtype, **kw):
    if self.dtype == object and np.dtype(dtype).kind in "fiu": return self.copy()
    return _orig_astype(self, dtype, **kw)
xr.DataArray.astype = astype

def ref_apply_ufunc(func, *args, input_core_dims=None, output_core_dims=((),), vectorize=False, **kw):
    input_core_dims = input_core_dims or [[] for _ in args]
    loop_dims = []
    sizes = {}; coords = {}
    for a, core in zip(args, input_core_dims):
        if isinstance(a, xr.DataArray):
            for d in a.dims:
                if d not in core and d not in loop_dims:
                    loop_dims.append(d); sizes[d] = a.sizes[d]
                    if d in a.coords: coords[d] = a.coords[d]
    out = np.empty([sizes[d] for d in loop_dims], dtype=object)
    for idx in itertools.product(*[range(sizes[d]) for d in loop_dims]):
        sel = dict(zip(loop_dims, idx)); call = []
        for a, core in zip(args, input_core_dims):
            if isinstance(a, xr.DataArray):
                s = a.isel({d: i for d, i in sel.items() if d in a.dims}).transpose(*core)
                v = s.values
                call.append(v if v.ndim else v.item())
            else: call.append(a)
        out[idx] = func(*call)
    return xr.DataArray(out, dims=loop_dims, coords=coords)
class XRProxy:
    def __getattr__(self, k):
        if k == "apply_ufunc": return ref_apply_ufunc
        return getattr(xr, k)
xrstats.xr = XRProxy()
class NPProxy:
    def __init__(self, **over): self.__dict__['_o']=over
    def __getattr__(self, k):
        if k in self._o: return self._o[k]
        return getattr(np, k)
npstats.np = NPProxy(float32=lambda x: x)

freq = np.array([0.05, 0.1, 0.2, 0.4, 0.5]); dirs = np.array([0., 90., 180., 270.])
def mk(ctx, nf, nd, ns=1):
    data = np.empty((ns, nf, nd), dtype=object)
    for idx in np.ndindex(data.shape):
        v = z3.Real("s_"+"_".join(map(str,idx))); ctx.assume(v >= 0); data[idx] = Sym(v)
    return xr.DataArray(data, coords={"site": np.arange(ns), "freq": freq[:nf], "dir": dirs[:nd]}, dims=("site","freq","dir"), name="efth")
def run(name, fn, mp=2000):
    t0=time.time()
    try:
        res = explore(fn, max_paths=mp)
        print(name, "paths", len(res), "t=%.1f"%(time.time()-t0)); print("   ", collections.Counter(str(r[1])[:80] for r in res).most_common(4))
    except Exception:
        import traceback; traceback.print_exc(limit=-5)
NF = int(sys.argv[1])
run("tp", lambda ctx: mk(ctx, NF, 2).spec.tp(smooth=False).values.tolist())
run("tps", lambda ctx: str(mk(ctx, NF, 2).spec.tp().values.tolist())[:60])
run("dpm", lambda ctx: str(mk(ctx, NF, 2).spec.dpm().values.tolist())[:60])
run("dpspr", lambda ctx: str(mk(ctx, NF, 2).spec.dpspr().values.tolist())[:60])
run("alpha", lambda ctx: str(mk(ctx, NF, 2).spec.alpha().values.tolist())[:60])
run("gamma", lambda ctx: str(mk(ctx, NF, 2).spec.gamma().values.tolist())[:60])
