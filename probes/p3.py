import warnings; warnings.filterwarnings("ignore")
import numpy as np, xarray as xr, z3, time, sys, dask, collections
dask.config.set(scheduler='synchronous')
import sym
from sym import Sym, explore, toz
import wavespectra
from wavespectra.core import select

def t_nearest(ctx):
    ns = 2
    lon = np.empty(ns, dtype=object); lat = np.empty(ns, dtype=object)
    for i in range(ns):
        lo = z3.Real(f"slon{i}"); la = z3.Real(f"slat{i}")
        ctx.assume(z3.And(lo >= 0, lo <= 360, la >= -90, la <= 90))
        lon[i] = Sym(lo); lat[i] = Sym(la)
    efth = np.arange(ns*2*2, dtype=float).reshape(ns,2,2)
    ds = xr.Dataset({"efth": (("site","freq","dir"), efth), "lon": (("site",), lon), "lat": (("site",), lat)},
                    coords={"site": np.arange(ns), "freq":[0.1,0.2], "dir":[0.,180.]})
    ql = z3.Real("qlon"); qa = z3.Real("qlat")
    ctx.assume(z3.And(ql >= -180, ql <= 180, qa >= -90, qa <= 90))
    out = ds.spec.sel([Sym(ql)], [Sym(qa)], method="nearest", tolerance=1000.0)
    sel_site = int(out.efth.values[0,0,0] // 4)
    return sel_site

t0=time.time()
try:
    res = explore(t_nearest, max_paths=3000)
    print("nearest paths", len(res), "t=%.1f"%(time.time()-t0))
    print(collections.Counter(str(r[1]) for r in res))
except Exception:
    import traceback; traceback.print_exc()
