import warnings; warnings.filterwarnings("ignore")
import numpy as np, xarray as xr, z3, time, sys, dask, collections, traceback
dask.config.set(scheduler='synchronous')
import sym
from sym import Sym, explore, toz
import wavespectra
from wavespectra.core.utils import smooth_spec, regrid_spec

freq = np.array([0.05, 0.1, 0.2, 0.4]); dirs = np.array([0., 90., 180., 270.])
def mk(ctx, nf=4, nd=4, dirs=dirs):
    vs = [[z3.Real(f"s_{i}_{j}") for j in range(nd)] for i in range(nf)]
    data = np.empty((nf, nd), dtype=object)
    for i in range(nf):
        for j in range(nd): data[i, j] = Sym(vs[i][j]); ctx.assume(vs[i][j] >= 0)
    return vs, xr.DataArray(data, coords={"freq": freq[:nf], "dir": dirs[:nd]}, dims=("freq", "dir"), name="efth")

def run(name, fn):
    t0=time.time()
    try:
        res = explore(fn, max_paths=200)
        print(name, "paths", len(res), "t=%.1f"%(time.time()-t0), str(res[0][1])[:300])
    except Exception:
        print(name, "FAILED"); traceback.print_exc(limit=-4)

def t_smooth(ctx):
    vs, da = mk(ctx)
    out = smooth_spec(da, 3, 3)
    return out.dims, out.values[1,0]
run("smooth", t_smooth)

def t_smooth_unsorted(ctx):
    vs, da = mk(ctx, dirs=np.array([180., 270., 0., 90.]))
    out = smooth_spec(da, 1, 1)
    return out.dims, out.dir.values.tolist(), out.values[1].tolist()
run("smooth_unsorted", t_smooth_unsorted)

def t_split(ctx):
    vs, da = mk(ctx)
    out = da.spec.split(fmin=0.07, fmax=0.3)
    return out.freq.values.tolist(), out.values[0,0]
run("split", t_split)

def t_regrid(ctx):
    vs, da = mk(ctx)
    out = regrid_spec(da, freq=np.array([0.05,0.15,0.4]))
    return out.values[1,0]
run("regrid", t_regrid)

def t_ptm4(ctx):
    vs, da = mk(ctx, 3, 4)
    w = z3.Real("wspd"); ctx.assume(z3.And(w>=0, w<=40))
    out = da.spec.partition.ptm4(Sym(w), 45.0, 20.0)
    return out.dims, out.values[0,0].tolist()
run("ptm4", t_ptm4)

def t_bbox(ctx):
    vs, da = mk(ctx, 3, 4)
    out = da.spec.partition.bbox([dict(fmin=0.05,fmax=0.1,dmin=0,dmax=90)])
    return out.dims, out.values[:, 0].tolist()
run("bbox", t_bbox)

def t_stack(ctx):
    vs, da = mk(ctx, 2, 2)
    ds = da.expand_dims(lat=[1.,2.], lon=[10.,20.,30.]).to_dataset().copy(deep=True)
    ds = ds.expand_dims(time=[np.datetime64("2020-01-01")])
    st = ds.spec._check_and_stack_dims()
    return dict(st.sizes)
run("stack", t_stack)
