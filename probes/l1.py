import warnings; warnings.filterwarnings("ignore")
import numpy as np, time, z3, sys, itertools, collections
import sym, llsym
from llsym import parse, Interp, Violation
from sym import explore, PathAbort
from wavespectra.partition import specpart

glob, funcs = parse("sp_m2r.ll")

def run_partition(ctx, spec_rows, ihmax, it=None):
    it = it or Interp(glob, funcs, ctx)
    nk, nth = len(spec_rows), len(spec_rows[0])
    sp = it.mem.alloc(4*nk*nth, "spec"); ip = it.mem.alloc(4*nk*nth, "ipart")
    for i in range(nk):
        for j in range(nth):
            it.mem.objs[sp[0]]['cells'][4*(i*nth+j)] = spec_rows[i][j]
    it.call("partition", [sp, ip, nk, nth, ihmax])
    cells = it.mem.objs[ip[0]]['cells']
    # ipart is Fortran ordered (ifreq + mk*iang)
    out = [[cells[4*(i + nk*j)] for j in range(nth)] for i in range(nk)]
    return out, it

# 1. concrete differential vs the real extension
rng = np.random.default_rng(0); n=0; t0=time.time(); steps=0
for trial in range(300):
    nk, nth = rng.integers(1,5), rng.integers(1,5)
    ih = int(rng.integers(1,6))
    a = rng.integers(0, 4, size=(nk,nth)).astype(np.float32)
    ref = specpart.partition(a, ih)
    def f(ctx):
        out, it = run_partition(ctx, a.tolist(), ih); return out, it.steps
    res = explore(f)
    assert len(res)==1
    out, st = res[0][1]; steps += st
    if not np.array_equal(np.array(out), ref):
        print("MISMATCH", a, ih, out, ref); break
    n+=1
print("concrete agree on", n, "cases; %.1fs; %d IR steps; %.0f steps/s"%(time.time()-t0, steps, steps/(time.time()-t0)))
