import z3, time, numpy as np
from fractions import Fraction
def R(x): return z3.RealVal(str(Fraction(float(x))))
for n in (3,4,5,6):
    f = np.geomspace(0.05, 0.5, n); df = np.gradient(f)
    e = [z3.Real(f"e{i}") for i in range(n)]
    m = lambda p: sum(e[i]*R(df[i])*R(f[i]**p) for i in range(n))
    m0, m1, m2 = m(0), m(1), m(2)
    s = z3.Solver(); s.set("timeout", 60000)
    s.add(*[x >= 0 for x in e]); s.add(m0 > 0)
    # tm02 <= tm01  <=>  m0/m2 <= (m0/m1)^2 <=> m1^2 <= m0*m2 (1+tol)
    s.add(m1*m1 > m0*m2*R(1+1e-9))
    t=time.time(); r=s.check(); print("CS n=%d"%n, r, "%.2fs"%(time.time()-t))
    # scaling: hs(k S)^2 == k hs(S)^2
    k = z3.Real("k"); s2 = z3.Solver(); s2.set("timeout", 60000)
    y1, y2 = z3.Reals("y1 y2")
    E1 = m0; E2 = sum((k*e[i])*R(df[i]) for i in range(n))
    s2.add(k>0, y1>=0, y2>=0, y1*y1==16*E1, y2*y2==16*E2, *[x>=0 for x in e])
    yk = z3.Real("yk"); s2.add(yk>=0, yk*yk==k)
    s2.add(y2 != yk*y1)
    t=time.time(); r=s2.check(); print("  scale n=%d"%n, r, "%.2fs"%(time.time()-t))
    # tps vertex between neighbours with symbolic e (concrete f)
    if n==3:
        f1,f2,f3=[R(x) for x in f]; e1,e2,e3=e
        q12=(e1-e2)/(f1-f2); q13=(e1-e3)/(f1-f3); qa=(q13-q12)/(f3-f2); fp=((f1+f2)-q12/qa)/2
        s3=z3.Solver(); s3.set("timeout",60000); s3.add(e1>=0,e3>=0,e2>e1,e2>e3); s3.add(z3.Or(fp<=f1, fp>=f3))
        t=time.time(); print("  tps-between", s3.check(), "%.2fs"%(time.time()-t))
        g1,g2,g3=z3.Reals("g1 g2 g3")
        q12=(e1-e2)/(g1-g2); q13=(e1-e3)/(g1-g3); qa=(q13-q12)/(g3-g2); fp=((g1+g2)-q12/qa)/2
        s3=z3.Solver(); s3.set("timeout",60000); s3.add(g1>0,g2>g1,g3>g2,e1>=0,e3>=0,e2>e1,e2>e3); s3.add(z3.Or(fp<=g1, fp>=g3))
        t=time.time(); print("  tps-between symbolic freqs", s3.check(), "%.2fs"%(time.time()-t))
