"""Probe: minimal symbolic-real proxy over z3, with path forking by decision replay."""
import math, fractions, itertools
import z3

class PathAbort(BaseException):
    pass

class Ctx:
    def __init__(self):
        self.solver = z3.Solver(); self.solver.set('timeout', 5000)
        self.decisions = []      # replay prefix
        self.pos = 0
        self.trace = []          # decisions taken (bool, other_feasible)
        self.conds = []
        self.fresh = 0
        self.nsolver = 0
    def fresh_real(self, name="t"):
        self.fresh += 1
        return z3.Real(f"{name}!{self.fresh}")
    def assume(self, c):
        self.conds.append(c)
        self.solver.add(c)
    def decide(self, cond):
        cond = z3.simplify(cond)
        if z3.is_true(cond): return True
        if z3.is_false(cond): return False
        if self.pos < len(self.decisions):
            d = self.decisions[self.pos]
            self.pos += 1
            self.trace.append(d)
            self.assume(cond if d else z3.Not(cond))
            return d
        # new decision: check feasibility of both
        self.nsolver += 2
        self.solver.push(); self.solver.add(cond); rt = self.solver.check(); self.solver.pop()
        self.solver.push(); self.solver.add(z3.Not(cond)); rf = self.solver.check(); self.solver.pop()
        t_ok = rt != z3.unsat
        f_ok = rf != z3.unsat
        if t_ok and f_ok:
            d = True
            self.pending.append(self.trace_prefix() + [False])
        elif t_ok:
            d = True
        elif f_ok:
            d = False
        else:
            raise PathAbort()
        self.pos += 1
        self.decisions.append(d)
        self.trace.append(d)
        self.assume(cond if d else z3.Not(cond))
        return d
    def trace_prefix(self):
        return list(self.trace)

CTX = None
ATAN2 = z3.Function('atan2', z3.RealSort(), z3.RealSort(), z3.RealSort())

def toz(x):
    if isinstance(x, Sym): return x.e
    if isinstance(x, SymBool): return z3.If(x.e, z3.RealVal(1), z3.RealVal(0))
    if isinstance(x, bool): return z3.RealVal(int(x))
    if isinstance(x, int): return z3.RealVal(x)
    if isinstance(x, float):
        if math.isnan(x) or math.isinf(x): raise ValueError("special")
        return z3.RealVal(str(fractions.Fraction(x)))
    import numpy as np
    if isinstance(x, np.generic):
        return toz(x.item())
    raise TypeError(type(x))

class SymBool:
    def __init__(self, e): self.e = e
    def __bool__(self): return CTX.decide(self.e)
    def __and__(self, o): return SymBool(z3.And(self.e, o.e if isinstance(o, SymBool) else z3.BoolVal(bool(o))))
    __rand__ = __and__
    def __or__(self, o): return SymBool(z3.Or(self.e, o.e if isinstance(o, SymBool) else z3.BoolVal(bool(o))))
    __ror__ = __or__
    def __invert__(self): return SymBool(z3.Not(self.e))

class Sym:

    def __init__(self, e): self.e = e
    def _b(self, o, f):
        try: oz = toz(o)
        except TypeError: return NotImplemented
        except ValueError: return float('nan')
        return Sym(f(self.e, oz))
    def _rb(self, o, f):
        try: oz = toz(o)
        except TypeError: return NotImplemented
        except ValueError: return float('nan')
        return Sym(f(oz, self.e))
    def __add__(self, o): return self._b(o, lambda a,b: a+b)
    def __radd__(self, o): return self._rb(o, lambda a,b: a+b)
    def __sub__(self, o): return self._b(o, lambda a,b: a-b)
    def __rsub__(self, o): return self._rb(o, lambda a,b: a-b)
    def __mul__(self, o): return self._b(o, lambda a,b: a*b)
    def __rmul__(self, o): return self._rb(o, lambda a,b: a*b)
    def __truediv__(self, o):
        return self._b(o, lambda a,b: a/b)
    def __rtruediv__(self, o): return self._rb(o, lambda a,b: a/b)
    def __neg__(self): return Sym(-self.e)
    def __pos__(self): return self
    def __abs__(self): return Sym(z3.If(self.e >= 0, self.e, -self.e))
    def __pow__(self, p):
        if isinstance(p, Sym): raise NotImplementedError
        if p == 0.5: return self.sqrt()
        if float(p).is_integer():
            p = int(p)
            if p >= 0:
                r = z3.RealVal(1)
                for _ in range(p): r = r * self.e
                return Sym(r)
            r = z3.RealVal(1)
            for _ in range(-p): r = r * self.e
            return Sym(1 / r)
        raise NotImplementedError(p)
    def sqrt(self):
        y = CTX.fresh_real("sqrt")
        CTX.assume(z3.And(y >= 0, y*y == self.e))
        return Sym(y)
    def _c(self, o, f):
        try: oz = toz(o)
        except TypeError: return NotImplemented
        except ValueError: return False
        return SymBool(f(self.e, oz))
    def __lt__(self, o): return self._c(o, lambda a,b: a<b)
    def __le__(self, o): return self._c(o, lambda a,b: a<=b)
    def __gt__(self, o): return self._c(o, lambda a,b: a>b)
    def __ge__(self, o): return self._c(o, lambda a,b: a>=b)
    def __eq__(self, o): return self._c(o, lambda a,b: a==b)
    def __ne__(self, o): return self._c(o, lambda a,b: a!=b)
    def __hash__(self): return id(self)
    def __repr__(self): return f"Sym({self.e})"
    def __float__(self): raise TypeError("realisation of Sym to float")
    def __mod__(self, o):
        oz = toz(o)
        q = z3.ToReal(z3.ToInt(self.e / oz))
        return Sym(self.e - oz * q)
    def __rmod__(self, o):
        oz = toz(o)
        q = z3.ToReal(z3.ToInt(oz / self.e))
        return Sym(oz - self.e * q)
    def arctan2(self, o):
        return Sym(ATAN2(self.e, toz(o)))
    def __bool__(self):
        return CTX.decide(self.e != 0)

def explore(fn, max_paths=10000):
    """Run fn() under all feasible decision sequences. fn returns something per path."""
    global CTX
    results = []
    pending = [[]]
    npaths = 0
    while pending:
        prefix = pending.pop()
        CTX = Ctx()
        CTX.decisions = list(prefix)
        CTX.pending = pending
        try:
            r = fn(CTX)
            results.append((list(CTX.trace), r))
        except PathAbort:
            pass
        npaths += 1
        if npaths >= max_paths: break
    return results
