from wavespectra.core.attributes import AttrDict
from wavespectra.core.utils import is_overlap
from typing import List, Tuple

def _lookup_does_not_insert(keys: List[str], probe: str) -> bool:
    """
    pre: len(keys) <= 2 and len(probe) <= 3
    post: _ == True
    """
    d = AttrDict({k: {"units": "m"} for k in keys})
    before = probe in d
    _ = d[probe]
    after = probe in d
    return before == after

def _overlap_ref(a: Tuple[int,int,int,int], b: Tuple[int,int,int,int]) -> bool:
    """
    pre: a[0] < a[2] and a[1] < a[3] and b[0] < b[2] and b[1] < b[3]
    post: _ == True
    """
    l1,b1,r1,t1 = a; l2,b2,r2,t2 = b
    ref = max(l1,l2) < min(r1,r2) and max(b1,b2) < min(t1,t2)
    return is_overlap(list(a), list(b)) == ref

def _overlap_ref_f(a: Tuple[float,float,float,float], b: Tuple[float,float,float,float]) -> bool:
    """
    pre: a[0] < a[2] and a[1] < a[3] and b[0] < b[2] and b[1] < b[3]
    post: _ == True
    """
    l1,b1,r1,t1 = a; l2,b2,r2,t2 = b
    ref = max(l1,l2) < min(r1,r2) and max(b1,b2) < min(t1,t2)
    return is_overlap(list(a), list(b)) == ref
