import warnings; warnings.filterwarnings("ignore")
import numpy as np, xarray as xr, z3, time
import sym, dask
dask.config.set(scheduler='synchronous')
from sym import Sym, explore, toz
import wavespectra
from wavespectra.core import npstats

freq = np.array([0.05, 0.1, 0.2, 0.4])
dirs = np.array([0., 90., 180., 270.])

def mk(ctx, nf=4, nd=4):
    vs = [[z3.Real(f"s_{i}_{j}") for j in range(nd)] for i in range(nf)]
    for row in vs:
        for v in row: ctx.assume(v >= 0)
    data = np.empty((nf, nd), dtype=object)
    for i in range(nf):
        for j in range(nd): data[i, j] = Sym(vs[i][j])
    da = xr.DataArray(data, coords={"freq": freq[:nf], "dir": dirs[:nd]}, dims=("freq", "dir"), name="efth")
    return vs, da

def t_hs(ctx):
    vs, da = mk(ctx)
    t0 = time.time()
    hs = da.spec.hs()
    v = hs.values.item()
    df = np.gradient(freq)
    E = sum(vs[i][j] * toz(float(df[i])) * 90 for i in range(4) for j in range(4))
    E = E + toz(0.25) * sum(vs[3][j] for j in range(4)) * 90 * toz(float(freq[3]))
    s = z3.Solver(); s.add(*ctx.conds)
    s.add(v.e * v.e != 16 * E)
    r = s.check()
    if r == z3.sat: print(s.model())
    return str(v.e)[:200], r, time.time() - t0

import sys
ONLY=sys.argv[1:]
def run(name, fn):
    if ONLY and name not in ONLY: return
    try:
        t0=time.time()
        res = explore(fn)
        print(name, "paths", len(res), "t=%.2f"%(time.time()-t0)); 
        for r in res[:6]: print("   ", r)
    except Exception as e:
        import traceback; traceback.print_exc()

run("hs", t_hs)

def t_stat(statname, **kw):
    def f(ctx):
        vs, da = mk(ctx, 4, 4)
        out = getattr(da.spec, statname)(**kw)
        if isinstance(out, tuple): out = out[0]
        v = out.values
        return str(v.tolist())[:150]
    return f

for st in ["hrms","momf","tm01","tm02","dm","dspr","swe","sw","gw","goda","uss","uss_x","mss","oned","to_energy","crsd"]:
    run(st, t_stat(st))
run("momd", t_stat("momd", mom=1))
run("mss_d", t_stat("mss", depth=10.0))
for st in ["tp","dp","dpm","dpspr","alpha","gamma", "hmax"]:
    run(st, t_stat(st))
