"""Run ONE harness instance to a verdict and write its result as JSON.

usage: python -u -m vt.worker PROP HARNESS_NAME OUT.json TIER
"""
import importlib
import json
import os
import sys
import time
import traceback


def main():
    prop, name, out, tier = sys.argv[1:5]
    t0 = time.time()
    try:
        from vt import repo
        repo.setup()
        from vt import harness as H
        importlib.import_module("vt.props." + prop.lower())
        h = H.find(prop, name)
        if h.opts.get("custom"):
            res = h.fn(tier=tier, **h.params)
            res.setdefault("harness", h.name)
            res.setdefault("prop", prop)
        else:
            o = h.opts
            deep = tier == "thorough"
            tb = float(os.environ.get("VT_BUDGET_SCALE", "1")) * (o.get("time_budget_thorough", o.get("time_budget", 900)) if deep else o.get("time_budget", 420))
            dl = float(os.environ.get("VT_DEADLINE", "0") or 0)
            if dl:
                tb = max(5.0, min(tb, dl - time.time() - 20))     # leave the explorer time to stop between two paths
            res = H.explore(
                h,
                max_paths=o.get("max_paths_thorough", o.get("max_paths", 3000)) if deep else o.get("max_paths", 3000),
                # VT_BUDGET_SCALE < 1: smoke run of a tier (same harness instances, shorter time boxes)
                time_budget=tb,
                witness_per_harness=o.get("witnesses", 2),
                obl_timeout=(o.get("obl_timeout_thorough", o.get("obl_timeout", 60000)) if deep else o.get("obl_timeout", 60000)),
                allowed_exc=tuple(o.get("allowed_exc", ())),
            )
    except BaseException as e:  # harness machinery failure: never reported as success
        res = {"harness": name, "prop": prop, "fatal": "%s: %s" % (type(e).__name__, e), "traceback": traceback.format_exc()[-3000:]}
    res["worker_wall_s"] = time.time() - t0
    with open(out, "w") as f:
        json.dump(res, f, default=str)


if __name__ == "__main__":
    main()
