"""Bind the checks to the repository's CURRENT working tree (rebuilt on every run)."""
import importlib.util
import os
import subprocess
import sys
import sysconfig

ROOT = os.environ.get("VERIF_REPO", "/repo")
SPECPART_DIR = os.path.join(ROOT, "wavespectra", "partition", "specpart")


def build_extension(outdir, sanitize=False):
    """Compile specpart from the current sources into outdir; returns the .so path."""
    import numpy

    suffix = sysconfig.get_config_var("EXT_SUFFIX")
    so = os.path.join(outdir, "specpart" + ("_asan" if sanitize else "") + suffix)
    cmd = ["clang", "-shared", "-fPIC", "-O1", "-g", "-w",
           "-I" + sysconfig.get_paths()["include"], "-I" + numpy.get_include(),
           os.path.join(SPECPART_DIR, "specpart_wrap.c"), os.path.join(SPECPART_DIR, "specpart.c"),
           "-lm", "-o", so]
    if sanitize:
        cmd[1:1] = ["-fsanitize=address,undefined", "-fno-omit-frame-pointer"]
    subprocess.run(cmd, check=True, capture_output=True, timeout=300)
    return so


def setup(so_path=None):
    """Make `import wavespectra` resolve to ROOT and the C extension to the fresh build."""
    if ROOT not in sys.path[:1]:
        sys.path.insert(0, ROOT)
    for k in [k for k in sys.modules if k == "wavespectra" or k.startswith("wavespectra.")]:
        del sys.modules[k]
    so_path = so_path or os.environ.get("VT_SPECPART_SO")
    if so_path:
        # load the freshly built extension first so that the stale in-tree .so is never used
        spec = importlib.util.spec_from_file_location("wavespectra.partition.specpart", so_path)
        mod = importlib.util.module_from_spec(spec)
        spec.loader.exec_module(mod)
        sys.modules["wavespectra.partition.specpart"] = mod
    import dask

    dask.config.set(scheduler="synchronous")  # z3's Python API is not thread safe
    from vt.symreal.stubs import scipy_special_vocabulary

    scipy_special_vocabulary()  # before the import: `from scipy.special import gammaln` must bind the wrapper
    import wavespectra  # noqa: F401

    if so_path:
        import wavespectra.partition.partition as P

        assert P.specpart is sys.modules["wavespectra.partition.specpart"]
    assert os.path.realpath(wavespectra.__file__).startswith(os.path.realpath(ROOT)), wavespectra.__file__
    return wavespectra


def git_head():
    try:
        return subprocess.run(["git", "-C", ROOT, "rev-parse", "--short", "HEAD"], capture_output=True, text=True, timeout=20).stdout.strip()
    except Exception:
        return "unknown"
