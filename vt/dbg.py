"""Debug: run one harness in-process and print its result. python -m vt.dbg PROP NAME [tier]"""
import importlib, json, sys, tempfile, os
from vt import repo
def main():
    prop, name = sys.argv[1], sys.argv[2]
    tier = sys.argv[3] if len(sys.argv) > 3 else "quick"
    d = tempfile.mkdtemp(prefix="vtdbg-")
    so = repo.build_extension(d); repo.setup(so)
    from vt import harness as H
    importlib.import_module("vt.props." + prop.lower())
    h = H.find(prop, name)
    if h.opts.get("custom"):
        res = h.fn(tier=tier, **h.params)
    else:
        res = H.explore(h, max_paths=h.opts.get("max_paths", 3000), time_budget=float(os.environ.get("VT_TB", 300)), obl_timeout=int(os.environ.get("VT_OT", 20000)), witness_per_harness=h.opts.get("witnesses", 2), allowed_exc=tuple(h.opts.get("allowed_exc", ())))
    for k in ("samples",): res.pop(k, None)
    print(json.dumps(res, indent=1, default=str)[:int(os.environ.get("VT_MAX", 6000))])
    import shutil; shutil.rmtree(d)
main()
