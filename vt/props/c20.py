"""C20 Valid spectra never crash the library, down to the native code (Engine S sweeps + Engine L + QF_FP lemma)."""
import math
import time

import numpy as np
import xarray as xr
import z3

from vt.harness import HarnessInstance, REGISTRY, grid, harness
from vt.props import ops as O
from vt.props.common import AND, isnan, mk_spec, total
from vt.symreal import stubs as ST
from vt.symreal import sym as S
from vt.symreal.sym import Sym

P = "C20"

META = dict(
    level="model_checking",
    encoded=["every operation of vt/props/ops.py + tp/fp/dpm/dpspr/alpha/gamma/hmax on degenerate spectra", "argument validation of split/smooth/bbox/stats", "specpart.c (IR): memory safety, int32 overflow, initialised reads, termination", "clamp of the level index: fmax(0, fmin(ihmax-1, y)) for every double y"],
    encoded_files=["wavespectra/core/npstats.py", "wavespectra/specarray.py", "wavespectra/core/xrstats.py", "wavespectra/partition/specpart/specpart.c", "wavespectra/partition/specpart/specpart_wrap.c", "wavespectra/core/utils.py"],
    bounds="degenerate families on grids with 1-4 frequencies and 1-4 directions: all zero, constant (symbolic level), a single non-zero bin at every position (symbolic height), monotone profiles with the peak on the first / last frequency (symbolic heights), two directions; native routine: the grids and level counts of C04 (every load/store/add of the IR raises an in-bounds / overflow obligation), consecutive calls with different shapes; clamp lemma over all 2^64 doubles",
    outside="IEEE rounding in the Python statistics; grids beyond the bound for the native routine; hp01 (experimental, combines partitions with data-dependent merging)",
    assumptions=["spectrum bins are finite reals >= 0"],
)

SMALL = {
    "f1d3": dict(freq=[0.2], dir=[0.0, 120.0, 240.0]),
    "f2d2": dict(freq=[0.1, 0.4], dir=[0.0, 180.0]),
    "f3d1": dict(freq=[0.1, 0.2, 0.4], dir=[45.0]),
    "f3d2": dict(freq=[0.1, 0.2, 0.4], dir=[0.0, 180.0]),
    "f4d4": dict(freq=[0.05, 0.1, 0.2, 0.4], dir=[0.0, 90.0, 180.0, 270.0]),
    "f5d2": dict(freq=[0.05, 0.08, 0.125, 0.2, 0.3], dir=[0.0, 180.0]),
}
STATS = ["hs", "hrms", "hmax", "tm01", "tm02", "dm", "dspr", "swe", "sw", "gw", "goda", "uss", "mss", "crsd", "oned", "tp", "fp", "dp", "dpm", "dpspr", "alpha", "gamma", "smooth", "split", "ptm4", "bbox", "rotate", "interp"]


def _build(env, family, g):
    gg = SMALL[g]
    f, d = np.array(gg["freq"]), np.array(gg["dir"])
    nf, nd = len(f), len(d)
    dt = object if env.sym else float
    vals = np.zeros((nf, nd), dtype=dt)
    if env.sym:
        from vt.symreal.sym import CF
        for idx in np.ndindex(vals.shape):
            vals[idx] = CF(0.0)   # concrete cells inside object arrays follow numpy's float semantics (x/0 -> inf/nan)
    if family == "zero":
        pass
    elif family == "constant":
        c = env.real("c", lo=0.0, hi=100.0, lo_strict=True)
        vals[...] = c
    elif family.startswith("single"):
        k = int(family.split(":")[1]) % (nf * nd)
        x = env.real("x", lo=0.0, hi=100.0, lo_strict=True)
        vals[k // nd, k % nd] = x
    elif family in ("peak_first", "peak_last"):
        h = [env.real("h%d" % i, lo=0.0, hi=100.0) for i in range(nf)]
        for i in range(nf - 1):
            env.assume(h[i] >= h[i + 1] if family == "peak_first" else h[i] <= h[i + 1])
        env.assume((h[0] if family == "peak_first" else h[-1]) > 0)
        for i in range(nf):
            vals[i, :] = h[i]
    elif family == "free":
        vals = env.array("E", (nf, nd), lo=0.0)
    da = xr.DataArray(vals, dims=("freq", "dir"), coords={"freq": f, "dir": d}, name="efth")
    return da, vals, f, d


def _call(env, da, stat):
    sp = da.spec
    with env.stubs(*ST.peak_stubs(), ST.interp_contract, ST.chunk_identity), env.lazy_sqrt():
        if stat == "smooth":
            return sp.smooth(1, 1) if min(da.shape) < 3 else sp.smooth(3, 3 if da.sizes["dir"] >= 3 else 1)
        if stat == "split":
            return sp.split(fmin=float(da.freq[0]), fmax=float(da.freq[-1])) if da.sizes["freq"] > 1 else sp.split(fmin=float(da.freq[0]))
        if stat == "ptm4":
            return sp.partition.ptm4(10.0, 30.0, 25.0)
        if stat == "bbox":
            return sp.partition.bbox([dict(fmin=0.01, fmax=0.15, dmin=-1.0, dmax=100.0)])
        if stat == "rotate":
            return sp.rotate(30.0)
        if stat == "interp":
            return sp.interp(freq=np.array([0.05, 0.15, 0.5]), dir=np.array([0.0, 90.0]))
        return getattr(sp, stat)()


FAMS = ["zero", "constant", "single:0", "single:1", "single:5", "peak_first", "peak_last", "free"]


@harness(P, quick=[dict(stat=s_, family=fam, g=g) for s_ in STATS for fam, g in (("zero", "f3d2"), ("constant", "f3d2"), ("single:1", "f4d4"), ("peak_first", "f3d2"), ("peak_last", "f4d4"), ("single:0", "f1d3"), ("free", "f3d1"))],
         thorough=[dict(stat=s_, family=fam, g=g) for s_ in STATS for fam in FAMS for g in ("f2d2", "f5d2", "f1d3")], max_paths=600, time_budget=240, witnesses=1)
def degenerate(env, stat, family, g):
    """the call returns (finite, or NaN in the documented degenerate cases) instead of raising."""
    da, vals, f, d = _build(env, family, g)
    if stat in ("rotate", "interp", "dm", "dspr", "dp", "dpm", "dpspr", "crsd", "ptm4", "bbox") and len(d) < 2 and stat in ("rotate", "interp"):
        return  # regridding directions needs at least two of them
    if stat == "smooth" and len(d) < 2:
        pass
    out = _call(env, da, stat)
    flat = []
    for v in (out.data_vars.values() if isinstance(out, xr.Dataset) else [out]):
        flat += list(np.asarray(v.values, dtype=object).ravel())
    bad = [x for x in flat if isinstance(x, float) and math.isinf(x)]
    nondeg = family in ("constant", "free", "peak_first", "peak_last") or family.startswith("single")
    if stat in ("hs", "hrms", "oned", "uss", "mss", "crsd", "smooth", "split", "ptm4", "bbox"):
        env.claim(not any(isnan(x) for x in flat), "%s is defined (not NaN) for every finite non-negative spectrum" % stat)
    env.claim(not bad, "%s never returns an infinity for a finite spectrum" % stat, {"n_inf": len(bad)})
    env.claim(True, "%s returned without raising" % stat)


INVALID = [
    ("smooth_even_freq", lambda da: da.spec.smooth(2, 3)),
    ("smooth_even_dir", lambda da: da.spec.smooth(3, 4)),
    ("split_fmax_le_fmin", lambda da: da.spec.split(fmin=0.2, fmax=0.1)),
    ("split_fmax_eq_fmin", lambda da: da.spec.split(fmin=0.2, fmax=0.2)),
    ("split_dmax_le_dmin", lambda da: da.spec.split(dmin=100.0, dmax=50.0)),
    ("bbox_overlap", lambda da: da.spec.partition.bbox([dict(fmin=0.05, fmax=0.2), dict(fmin=0.1, fmax=0.3)])),
    ("bbox_fmin_ge_fmax", lambda da: da.spec.partition.bbox([dict(fmin=0.3, fmax=0.1)])),
    ("stats_unknown", lambda da: da.spec.stats(["hs", "no_such_stat"])),
    ("stats_bad_container", lambda da: da.spec.stats("hs")),
    ("stats_names_mismatch", lambda da: da.spec.stats(["hs", "tm01"], names=["a"])),
    ("interp_freq_outside", lambda da: da.spec._interp_freq(5.0)),
]


@harness(P, quick=[dict(case=i) for i in range(len(INVALID))])
def invalid_arguments(env, case):
    """invalid arguments are rejected with ValueError (never mis-handled, never another exception)."""
    name, fn = INVALID[case]
    da, vals, f, d = _build(env, "free", "f4d4")
    try:
        with env.stubs(ST.chunk_identity):
            fn(da)
        raised = None
    except ValueError:
        raised = "ValueError"
    env.claim(raised == "ValueError", "%s is rejected with ValueError" % name, {"raised": raised})


# ---------------------------------------------------------------------------------------
# native routine: the C04 harnesses double as memory-safety / overflow / termination checks
# ---------------------------------------------------------------------------------------
from vt.props import c04 as _c04  # noqa: E402

for (a, b, h) in ((1, 1, 2), (1, 2, 1), (2, 1, 3), (2, 2, 3), (1, 4, 3), (4, 1, 2), (3, 2, 2)):
    REGISTRY.setdefault(P, []).append(HarnessInstance(P, _c04.watershed, dict(nk=a, nth=b, ihmax=h), ("quick", "thorough"), dict(max_paths=20000, time_budget=420, hard_timeout=800, witnesses=3)))
for (a, b, h) in ((3, 3, 2), (2, 4, 3), (1, 6, 3), (3, 2, 4)):
    REGISTRY.setdefault(P, []).append(HarnessInstance(P, _c04.watershed, dict(nk=a, nth=b, ihmax=h), ("thorough",), dict(max_paths=200000, time_budget_thorough=3300, hard_timeout_thorough=3600, witnesses=3)))
for (a, b) in (((2, 3), (3, 2)), ((1, 4), (2, 2)), ((2, 2), (1, 4)), ((2, 2), (2, 3))):
    REGISTRY.setdefault(P, []).append(HarnessInstance(P, _c04.consecutive_calls, dict(first=a, second=b, ihmax=2), ("quick", "thorough"), dict(max_paths=20000, time_budget=240, hard_timeout=500)))
for (a, m, b) in (((1, 4), (4, 1), (2, 3)), ((1, 3), (3, 1), (3, 3)), ((3, 1), (1, 4), (3, 2))):
    REGISTRY.setdefault(P, []).append(HarnessInstance(P, _c04.consecutive_calls, dict(first=a, mid=m, second=b, ihmax=2), ("quick", "thorough"), dict(max_paths=20000, time_budget=240, hard_timeout=500)))
for (a, b, h) in ((1, 1, 1), (2, 2, 1), (3, 4, 3)):
    REGISTRY.setdefault(P, []).append(HarnessInstance(P, _c04.constant, dict(nk=a, nth=b, ihmax=h), ("quick", "thorough"), {}))


def _clamp_lemma(tier="quick"):
    """QF_FP: for every double y (NaN, +-inf included) and every level count h = ihmax-1 in [0, 2^24],
    r = fmax(0, fmin(h, y)) is a number with 0 <= r <= h, so (int) r indexes the level histogram in bounds."""
    t0 = time.time()
    res = {"paths": 1, "decisions": 0, "obligations": 1, "discharged": 0, "trivial": 0, "queries": 1, "solver_time": 0.0, "witness_validated": 0, "inconclusive": [], "spurious": [],
           "violations": [], "engine_errors": [], "samples": [], "stubs": [], "labels": ["clamp lemma (QF_FP)"], "nontrivial_paths": 1, "budget": None}
    F64 = z3.Float64()
    y, h = z3.FP("y", F64), z3.FP("h", F64)
    zero = z3.FPVal(0.0, F64)
    r = z3.fpMax(zero, z3.fpMin(h, y))
    s = z3.Solver()
    s.set("timeout", 240000 if tier == "quick" else 900000)
    s.add(z3.Not(z3.fpIsNaN(h)), z3.fpGEQ(h, zero), z3.fpLEQ(h, z3.FPVal(float(2**24), F64)))
    s.add(z3.Not(z3.And(z3.Not(z3.fpIsNaN(r)), z3.fpGEQ(r, zero), z3.fpLEQ(r, h))))
    r_ = s.check()
    res["solver_time"] = time.time() - t0
    if r_ == z3.unsat:
        res["discharged"] = 1
    elif r_ == z3.sat:
        m = s.model()
        res["violations"].append({"kind": "cex", "label": "clamp lemma (QF_FP)", "inputs": {"model": str(m)}, "replay": {"status": "failed"}, "trace": ""})
    else:
        res["inconclusive"].append({"label": "clamp lemma (QF_FP)", "why": "z3 unknown/timeout"})
    res["samples"].append({"lemma": "forall double y, 0<=h<=2^24: 0 <= fmax(0, fmin(h, y)) <= h and not NaN", "result": str(r_)})
    res["wall_s"] = time.time() - t0
    return res


REGISTRY.setdefault(P, []).append(HarnessInstance(P, _clamp_lemma, {}, ("quick", "thorough"), {"custom": True, "replay": lambda d: {"status": "failed"}}))
