"""C04 Watershed gives one connected basin per spectral peak on the circular grid (Engine L: IR of specpart.c)."""
import os
import subprocess
import tempfile

import numpy as np
import z3

from vt.harness import grid, harness
from vt.llsym import interp as L
from vt.refs import watershed as W
from vt.symreal import sym as S
from vt.symreal.sym import Sym

P = "C04"

META = dict(
    level="model_checking",
    encoded=["specpart.c: partinit, ptnghb, partition, ptsort, pt_fld, fifo_add, fifo_empty, fifo_first, int_minval (LLVM IR of the current source, clang -O0 + mem2reg)"],
    encoded_files=["wavespectra/partition/specpart/specpart.c", "wavespectra/partition/specpart/specpart_wrap.c"],
    bounds="spectra on grids 1x1..2x3 (degenerate shapes), 1x4, 4x1, 3x2 (quick) and 3x3 with 3 levels (quick, cut into 16 sub-trees, time-boxed) and 3x3, 2x4, 4x2, 1x6, 6x1, 3x4 (thorough; 2x4 also with 5 levels) with ihmax in 1..3 (4 on the small multi-basin grids); every bin a symbolic real in [0, ihmax-1] with some bin at 0 and some at ihmax-1 (the watershed is invariant under positive affine rescaling, so this covers every non-constant spectrum up to rounding); all circular shifts of the direction axis; neighbour table for every shape up to 8x8",
    outside="float rounding of the discretisation (zmax-z, *fact, round) - real arithmetic stands in; grids beyond the bound; ihmax > 4 (the default 100 matters only through the number of distinct levels, at most the number of bins)",
    assumptions=["spectrum bins are finite reals", "clang's IR is a faithful rendering of the C source at -O0"],
)

_IR = {}
_DRV = {}


def _cleanup_at_exit(d):
    import atexit
    import shutil
    atexit.register(shutil.rmtree, d, True)


def ir():
    if "f" not in _IR:
        from vt import repo
        d = tempfile.mkdtemp(prefix="vt-ir-", dir=os.environ.get("VT_SCRATCH") or None)
        _cleanup_at_exit(d)
        ll = L.build_ir(os.path.join(repo.SPECPART_DIR, "specpart.c"), d)
        _IR["g"], _IR["f"] = L.parse(ll)
        _IR["dir"] = d
    return _IR["g"], _IR["f"]


def driver():
    """Sanitizer build of the replay driver + the repository's specpart.c (once per process)."""
    if "exe" not in _DRV:
        from vt import repo
        d = tempfile.mkdtemp(prefix="vt-drv-", dir=os.environ.get("VT_SCRATCH") or None)
        _cleanup_at_exit(d)
        exe = os.path.join(d, "replay_specpart")
        src = os.path.join(os.path.dirname(L.__file__), "replay_specpart.c")
        subprocess.run(["clang", "-g", "-O1", "-w", "-fsanitize=address,undefined", "-fno-sanitize-recover=all", "-fno-omit-frame-pointer", "-I" + repo.SPECPART_DIR,
                        src, os.path.join(repo.SPECPART_DIR, "specpart.c"), "-lm", "-o", exe], check=True, capture_output=True, timeout=300)
        _DRV["exe"] = exe
    return _DRV["exe"]


class NativeFailure(Exception):
    """the real C routine crashed / was stopped by a sanitizer / called exit(): a failure of the code under
    test (not of the harness), whatever frame raised it."""
    real_code_failure = True


def run_driver(calls):
    """calls: list of (2-D float array [freq][dir], ihmax). Returns list of label maps or raises RuntimeError."""
    lines = [str(len(calls))]
    for spec, ihmax in calls:
        a = np.asarray(spec, dtype=np.float64)
        lines.append("%d %d %d" % (a.shape[0], a.shape[1], ihmax))
        lines.append(" ".join(repr(float(np.float32(x))) for x in a.ravel()))
    p = subprocess.run([driver()], input="\n".join(lines) + "\n", capture_output=True, text=True, timeout=120,
                       env=dict(os.environ, ASAN_OPTIONS="detect_leaks=0:abort_on_error=0", UBSAN_OPTIONS="print_stacktrace=1"))
    if p.returncode != 0:
        raise NativeFailure("native routine failed (exit %s): %s %s" % (p.returncode, p.stdout[-200:], p.stderr[-600:]))
    maps = []
    for (spec, _), line in zip(calls, [l for l in p.stdout.splitlines() if l.startswith("MAP")]):
        a = np.asarray(spec)
        maps.append(np.array(list(map(int, line.split()[1:]))).reshape(a.shape).tolist())
    if len(maps) != len(calls):
        raise RuntimeError("driver produced %d maps for %d calls: %s" % (len(maps), len(calls), p.stderr[-300:]))
    return maps


def sym_partition(it, rows, ihmax):
    """Run partition() of the IR on a 2-D list of z3 reals / numbers. Returns (labels, levels|None)."""
    nk, nth = len(rows), len(rows[0])
    sp = it.mem.alloc(4 * nk * nth, "spec")
    ip = it.mem.alloc(4 * nk * nth, "ipart")
    for i in range(nk):
        for j in range(nth):
            v = rows[i][j]
            it.mem.objs[sp[0]]["cells"][4 * (i * nth + j)] = v.e if isinstance(v, Sym) else v
    it.call("partition", [sp, ip, nk, nth, ihmax])
    cells = it.mem.objs[ip[0]]["cells"]
    labels = [[cells[4 * (i + nk * j)] for j in range(nth)] for i in range(nk)]
    levels = None
    imi_ptr = it.mem.objs[it.gptr["imi"][0]]["cells"].get(0)
    if imi_ptr is not None:
        ic = it.mem.objs[imi_ptr[0]]["cells"]
        if all(4 * (i + nk * j) in ic for i in range(nk) for j in range(nth)):
            levels = [[ic[4 * (i + nk * j)] for j in range(nth)] for i in range(nk)]
            if any(L.is_sym(x) for r in levels for x in r):
                # the level terms are fixed by the path condition (ptsort concretised them): read them off a model
                r_, m_ = it.ctx.solve([], 20000, full=True)
                if r_ == z3.sat:
                    ev = [[m_.eval(x, model_completion=True) if L.is_sym(x) else x for x in r] for r in levels]
                    levels = [[(x.as_long() if L.is_sym(x) else int(x)) for x in r] for r in ev]
                else:
                    levels = None
    return labels, levels


def _spectrum(env, nk, nth, ihmax):
    H = max(ihmax - 1, 1)
    vals = env.array("z", (nk, nth), lo=0.0, hi=float(H))
    flat = list(vals.ravel())
    if len(flat) == 1:
        return vals, H      # a single bin is always a constant spectrum
    if env.sym:
        env.assume(S.SymBool(z3.Or(*[v.e == 0 for v in flat])))
        env.assume(S.SymBool(z3.Or(*[v.e == H for v in flat])))
    else:
        env.assume(min(flat) == 0 and max(flat) == H)
    return vals, H


SHAPES_Q = [(1, 1), (1, 2), (2, 1), (2, 2), (2, 3), (1, 4), (4, 1), (3, 2)]
SHAPES_T = [(3, 3), (2, 4), (4, 2), (1, 6), (6, 1)]


def _parts(n, **kw):
    return [dict(kw, part="%d/%d" % (i, n)) for i in range(n)]


@harness(P, quick=[dict(nk=a, nth=b, ihmax=h) for (a, b) in ((1, 2), (2, 1), (2, 2), (2, 3)) for h in (1, 2, 3)] + [dict(nk=a, nth=b, ihmax=h) for (a, b) in ((1, 4), (4, 1)) for h in (2, 3)] + [dict(nk=3, nth=2, ihmax=2), dict(nk=1, nth=1, ihmax=2)],
         thorough=[dict(nk=a, nth=b, ihmax=2) for (a, b) in SHAPES_T] + [dict(nk=a, nth=b, ihmax=3) for (a, b) in ((1, 6), (6, 1))] + [dict(nk=3, nth=2, ihmax=3), dict(nk=3, nth=2, ihmax=4), dict(nk=1, nth=4, ihmax=4), dict(nk=4, nth=1, ihmax=4)],
         max_paths=20000, max_paths_thorough=200000, time_budget=330, time_budget_thorough=3300, hard_timeout=600, hard_timeout_thorough=3600, witnesses=3)
def watershed(env, nk, nth, ihmax):
    """valid watershed map on every path: all bins labelled, one connected basin per regional maximum of the
    discretised field, equivariant under circular shifts of the direction axis; no memory-safety violation."""
    _watershed(env, nk, nth, ihmax, None)


@harness(P, quick=_parts(16, nk=3, nth=3, ihmax=3),
         thorough=_parts(16, nk=3, nth=3, ihmax=3) + _parts(16, nk=2, nth=4, ihmax=3) + _parts(16, nk=4, nth=2, ihmax=3) + _parts(16, nk=3, nth=4, ihmax=3) + _parts(16, nk=2, nth=4, ihmax=5),
         max_paths=20000, max_paths_thorough=200000, time_budget=240, time_budget_thorough=900, hard_timeout=600, hard_timeout_thorough=1200, witnesses=1)
def watershed_split(env, nk, nth, ihmax, part):
    """the claims of `watershed` on a larger grid, the path tree cut into n sub-trees (`part="i/n"`, split on the
    order of fixed pairs of bins) explored by separate worker processes."""
    _watershed(env, nk, nth, ihmax, part)


def _watershed(env, nk, nth, ihmax, part):
    vals, H = _spectrum(env, nk, nth, ihmax)
    rows = [list(r) for r in vals]
    if part:
        flat_ = [x for r in rows for x in r]
        for t in range(int(str(part).split("/")[1]).bit_length() - 1):
            bool(flat_[2 * t] <= flat_[2 * t + 1])     # the first decisions of every path: deterministic split points
    shifts = list(range(1, nth))
    if env.sym:
        g, f = ir()
        it = L.Interp(g, f, S.ctx())
        it.max_steps = 20000 * nk * nth * max(ihmax, 1) + 100000
        try:
            labels, levels = sym_partition(it, rows, ihmax)
        except L.Violation as e:
            env.claim(False, "native routine: memory safety / no undefined behaviour / termination", {"violation": str(e)[:300]})
            return
        if levels is None:
            # the routine returned before discretising: only a constant spectrum may take that exit, with no partition
            flat_ = [x for r in rows for x in r]
            const = S.SymBool(z3.And(*[(a.e if isinstance(a, Sym) else a) == (flat_[0].e if isinstance(flat_[0], Sym) else flat_[0]) for a in flat_[1:]])) if len(flat_) > 1 else True
            env.claim(const, "the early exit (no discretisation) is taken by constant spectra only")
            env.claim(all((not L.is_sym(x)) and x == 0 for r in labels for x in r), "constant spectrum gives no partition")
            return
        env.note(steps=it.steps)
        problems = W.judge(labels, levels) if len({x for r in levels for x in r}) > 1 else ([] if all(x >= 0 for r in labels for x in r) else ["negative label"])
        env.claim(not problems, "valid watershed partition of the discretised spectrum", {"problems": problems[:3], "labels": labels, "levels": levels})
        if len({x for r in levels for x in r}) == 1:
            return
        for s_ in shifts:
            shifted = [[rows[i][(j + s_) % nth] for j in range(nth)] for i in range(nk)]
            it2 = L.Interp(g, f, S.ctx())
            it2.max_steps = it.max_steps
            try:
                lab2, _ = sym_partition(it2, shifted, ihmax)
            except L.Violation as e:
                env.claim(False, "native routine: memory safety / no undefined behaviour / termination", {"violation": str(e)[:300], "shift": s_})
                return
            back = [[lab2[i][(j - s_) % nth] for j in range(nth)] for i in range(nk)]
            env.claim(W.same_partition(back, labels), "circular shift of the direction axis shifts the partitions identically", {"shift": s_, "labels": labels, "shifted_back": back})
    else:
        a = np.array(rows, dtype=float)
        calls = [(a, ihmax)] + [(np.roll(a, -s_, axis=1), ihmax) for s_ in shifts]
        maps = run_driver(calls)   # RuntimeError (sanitizer report / crash) counts as an exception of the real code
        levels = W.discretise(a, ihmax)
        labels = maps[0]
        if levels is None:
            env.claim(all(x == 0 for r in labels for x in r), "constant spectrum gives no partition")
            return
        if len({x for r in levels for x in r}) > 1:
            problems = W.judge(labels, levels)
            env.claim(not problems, "valid watershed partition of the discretised spectrum", {"problems": problems[:3], "labels": labels, "levels": levels})
            for s_, m in zip(shifts, maps[1:]):
                back = np.roll(np.array(m), s_, axis=1).tolist()
                env.claim(W.same_partition(back, labels), "circular shift of the direction axis shifts the partitions identically", {"shift": s_, "labels": labels, "shifted_back": back})


@harness(P, quick=grid(nk=[1, 2, 3], nth=[1, 2, 4], ihmax=[1, 3]))
def constant(env, nk, nth, ihmax):
    """a constant spectrum has no partition: every bin gets label 0."""
    c = env.real("c", lo=0.0, hi=100.0)
    rows = [[c for _ in range(nth)] for _ in range(nk)]
    if env.sym:
        g, f = ir()
        it = L.Interp(g, f, S.ctx())
        try:
            labels, _ = sym_partition(it, rows, ihmax)
        except L.Violation as e:
            env.claim(False, "native routine: memory safety / no undefined behaviour / termination", {"violation": str(e)[:300]})
            return
    else:
        labels = run_driver([(np.full((nk, nth), float(c)), ihmax)])[0]
    env.claim(all(x == 0 for r in labels for x in r), "constant spectrum gives no partition (all labels 0)", {"labels": labels})


@harness(P, quick=[dict(maxn=8)], thorough=[dict(maxn=12)])
def neighbour_table(env, maxn):
    """ptnghb for every shape up to maxn x maxn: the entries of each bin are exactly its 8-neighbourhood with
    wrap-around along direction and none along frequency, all in range, count <= 8."""
    if not env.sym:
        env.claim(True, "neighbour table (symbolic-mode obligation only)")
        return
    g, f = ir()
    bad = []
    for nk in range(1, maxn + 1):
        for nth in range(1, maxn + 1):
            it = L.Interp(g, f, S.ctx())
            try:
                it.call("partinit", [nk, nth])
            except L.Violation as e:
                bad.append(((nk, nth), str(e)[:100]))
                continue
            ptr = it.mem.objs[it.gptr["neigh"][0]]["cells"][0]
            cells = it.mem.objs[ptr[0]]["cells"]
            for n in range(nk * nth):
                j, i = divmod(n, nk)
                cnt = cells.get(4 * (8 + 9 * n))
                got = [cells.get(4 * (k + 9 * n)) for k in range(cnt or 0)]
                want = {a + nk * b for (a, b) in W.neighbours(nk, nth, i, j)}
                gs = set(got)
                if nth == 1:
                    gs.discard(n)  # with a single direction the wrap-around neighbour of a bin is the bin itself
                if cnt is None or cnt > 8 or gs != want or any(x is None or not (0 <= x < nk * nth) for x in got):
                    bad.append(((nk, nth, n), got, sorted(want)))
    env.claim(not bad, "neighbour table equals the circular 8-neighbourhood for every shape up to %dx%d" % (maxn, maxn), {"bad": bad[:3]})


@harness(P, quick=[dict(first=a, second=b, ihmax=2) for a, b in (((2, 3), (3, 2)), ((1, 4), (2, 2)), ((2, 2), (1, 4)), ((3, 2), (1, 6)), ((2, 2), (2, 3)), ((2, 3), (2, 2)))]
         + [dict(first=(1, 4), mid=(4, 1), second=(2, 3), ihmax=2), dict(first=(1, 3), mid=(3, 1), second=(3, 3), ihmax=2), dict(first=(3, 1), mid=(1, 4), second=(3, 2), ihmax=2)],
         thorough=[dict(first=a, second=b, ihmax=3) for a, b in (((2, 3), (3, 2)), ((3, 2), (2, 3)), ((1, 6), (3, 2)), ((2, 2), (4, 1)))]
         + [dict(first=(1, 4), mid=(4, 1), second=(4, 2), ihmax=2), dict(first=(4, 1), mid=(1, 4), second=(2, 4), ihmax=2), dict(first=(2, 2), mid=(1, 6), second=(3, 2), ihmax=3)], max_paths=20000, time_budget=300, hard_timeout=600, time_budget_thorough=900, hard_timeout_thorough=1200)
def consecutive_calls(env, first, second, ihmax, mid=None):
    """history independence of the static work buffers: a call after one (or two: `mid`) calls with other shapes
    gives what a fresh process gives for it (C18), without memory errors (C20)."""
    H = max(ihmax - 1, 1)
    earlier = []
    for shp in ([first] + ([mid] if mid else [])):
        rng = np.random.default_rng(shp[0] * 10 + shp[1])
        v = np.round(rng.random(shp) * H, 2)
        v.flat[0], v.flat[-1] = 0.0, float(H)
        earlier.append(v)
    if env.sym:
        v2 = np.empty(second, dtype=object)
        flat = []
        for idx in np.ndindex(second):
            v2[idx] = env.real("y_%d_%d" % idx, lo=0.0, hi=float(H))
            flat.append(v2[idx])
        env.assume(S.SymBool(z3.Or(*[v.e == 0 for v in flat])))
        env.assume(S.SymBool(z3.Or(*[v.e == H for v in flat])))
        g, f = ir()
        it = L.Interp(g, f, S.ctx())
        try:
            for v in earlier:
                sym_partition(it, [list(r) for r in v], ihmax)
            lab_after, lev = sym_partition(it, [list(r) for r in v2], ihmax)
            fresh = L.Interp(g, f, S.ctx())
            lab_fresh, _ = sym_partition(fresh, [list(r) for r in v2], ihmax)
        except L.Violation as e:
            env.claim(False, "native routine: memory safety / no undefined behaviour / termination", {"violation": str(e)[:300]})
            return
        env.claim(lab_after == lab_fresh, "partition after a call on another shape equals the partition from a fresh state", {"after": lab_after, "fresh": lab_fresh})
    else:
        v2 = np.empty(second, dtype=float)
        for idx in np.ndindex(second):
            v2[idx] = env.real("y_%d_%d" % idx, lo=0.0, hi=float(H))
        env.assume(v2.min() == 0 and v2.max() == H)
        after = run_driver([(np.array(v, dtype=float), ihmax) for v in earlier] + [(v2, ihmax)])[-1]
        fresh = run_driver([(v2, ihmax)])[0]
        env.claim(after == fresh, "partition after a call on another shape equals the partition from a fresh state", {"after": after, "fresh": fresh})
