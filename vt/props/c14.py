"""C14 Site selection finds the right stations on a sphere-aware longitude axis (Engine S through Dataset.spec.sel)."""
import math

import numpy as np
import xarray as xr
import z3

from vt.harness import grid, harness
from vt.props.common import AND, IMPLIES, NOT, OR, isnan, near
from vt.symreal import sym as S
from vt.symreal.sym import Sym, SymBool

P = "C14"

META = dict(
    level="model_checking",
    encoded=["select.Coordinates", "select.sel_nearest/sel_idw/sel_bbox", "SpecDataset.sel"],
    encoded_files=["wavespectra/core/select.py", "wavespectra/specdataset.py"],
    bounds="2 stations (quick) / 3 stations (thorough) with symbolic lon/lat, 1-2 symbolic query points, symbolic tolerance in [0,5], max_sites in {1,2,4}; dataset and query longitudes independently in [0,360] or [-180,180] (the convention is a precondition on the symbolic values); stations tagged by concrete efth values",
    outside="great-circle distance (the library and the property use planar degrees with a circular longitude axis); dask-backed datasets; IEEE rounding of the distance",
    assumptions=["latitudes in [-90, 90]", "a dataset in the [-180,180] convention has at least one negative longitude and a query likewise (otherwise the two conventions coincide on the data)"],
)

TAGS = [1.0, 10.0, 100.0]


def _lon(env, name, conv):
    return env.real(name, lo=0.0, hi=360.0) if conv == 360 else env.real(name, lo=-180.0, hi=180.0)


def _dset(env, ns, conv):
    lons = [_lon(env, "slon%d" % k, conv) for k in range(ns)]
    lats = [env.real("slat%d" % k, lo=-90.0, hi=90.0) for k in range(ns)]
    if conv == 180:
        env.assume(OR(*[x < 0 for x in lons]))
    else:
        # a [0,360] dataset is recognised by the library only if no longitude is negative (true by the bounds)
        pass
    dt = object if env.sym else float
    efth = np.zeros((ns, 2, 2))
    for k in range(ns):
        efth[k] = TAGS[k]
    ds = xr.Dataset(
        {"efth": (("site", "freq", "dir"), efth), "lon": (("site",), np.array(lons, dtype=dt)), "lat": (("site",), np.array(lats, dtype=dt))},
        coords={"site": np.arange(ns), "freq": [0.1, 0.2], "dir": [0.0, 180.0]},
    )
    return ds, lons, lats


def _short(a, b):
    """circular longitude difference in [0,180]: m = |a mod 360 - b mod 360|, min(m, 360 - m)."""
    m = abs(a % 360 - b % 360)
    if isinstance(m, Sym):
        return Sym(z3.If(m.e <= 360 - m.e, m.e, 360 - m.e))
    return min(m, 360 - m)


def _d2(slon, slat, qlon, qlat):
    dl = _short(slon, qlon)
    return dl * dl + (slat - qlat) * (slat - qlat)


def _to360(x):
    return x % 360


def _same_lon(env, got, want):
    """longitudes equal as numbers (the reported value must be in the query's convention)."""
    return near(env, got, want, rel=0.0, abs_=1e-9, ctol=0.0, catol=1e-9)


@harness(P, quick=grid(ns=[2], dconv=[360, 180], qconv=[360, 180]), thorough=grid(ns=[3], dconv=[360, 180], qconv=[360, 180]), max_paths=4000, time_budget=300, hard_timeout=600, time_budget_thorough=2400, hard_timeout_thorough=2700)
def nearest(env, ns, dconv, qconv):
    """nearest: the station at minimum circular distance, AssertionError iff that distance exceeds the tolerance;
    longitudes reported in the query's convention."""
    ds, slon, slat = _dset(env, ns, dconv)
    _nearest_claims(env, ds, slon, slat, ns, qconv)


def _nearest_claims(env, ds, slon, slat, ns, qconv, note="", reuse=False):
    qlon, qlat = _lon(env, "qlon", qconv), env.real("qlat", lo=-90.0, hi=90.0)
    if qconv == 180:
        env.assume(qlon < 0)
    tol = env.real("tol", lo=0.0, hi=5.0)
    qa, la = [qlon], [qlat]
    if reuse:
        # the caller keeps its query in two arrays and uses them for two selections in a row
        dt = object if env.sym else float
        qa, la = np.array([qlon], dtype=dt), np.array([qlat], dtype=dt)
        try:
            with env.lazy_sqrt():
                ds.spec.sel(qa, la, method="nearest", tolerance=1000.0)
        except (ValueError, AssertionError):
            pass
    d2 = [_d2(slon[k], slat[k], qlon, qlat) for k in range(ns)]
    within = [d2[k] <= tol * tol for k in range(ns)]
    try:
        with env.lazy_sqrt():
            out = ds.spec.sel(qa, la, method="nearest", tolerance=tol)
    except AssertionError:
        env.claim(AND(*[NOT(w) for w in within]), note + "nearest fails only when no station is within the tolerance")
        return
    env.claim(OR(*within), note + "nearest succeeds only when a station is within the tolerance")
    env.claim(out.sizes["site"] == 1, note + "one station per query point")
    tag = float(out.efth.values.ravel()[0])
    k = TAGS.index(tag) if tag in TAGS else -1
    env.claim(k >= 0, note + "an existing station is returned", {"tag": tag})
    if k < 0:
        return
    env.claim(AND(*[d2[k] <= d2[j] for j in range(ns) if j != k]), note + "the returned station is the one at minimum distance (longitude difference the short way round)", {"returned": k})
    glon, glat = out.lon.values.ravel()[0], out.lat.values.ravel()[0]
    env.claim(AND(_lon_ok(env, glon, slon[k], qconv), near(env, glat, slat[k], rel=0.0, abs_=0.0)), note + "coordinates of the returned station, longitude in the query's convention")


@harness(P, quick=[dict(ns=2, dconv=360, first="bbox", fconv=180, qconv=360), dict(ns=2, dconv=180, first="bbox", fconv=360, qconv=180), dict(ns=2, dconv=360, first="nearest", fconv=180, qconv=360), dict(ns=2, dconv=180, first="same_query", fconv=360, qconv=360)],
         thorough=grid(ns=[2, 3], dconv=[360, 180], first=["bbox", "nearest"], fconv=[360, 180], qconv=[360, 180]) + grid(ns=[2], dconv=[360, 180], first=["same_query"], fconv=[360], qconv=[360, 180]), max_paths=4000, time_budget=300, hard_timeout=600, time_budget_thorough=1800, hard_timeout_thorough=2100)
def nearest_after(env, ns, dconv, first, fconv, qconv):
    """the same claims as `nearest` for a selection made AFTER an earlier selection on the same dataset object
    (a fixed box over part of the globe, or a fixed nearest query with a tolerance that accepts everything) in convention `fconv`:
    what one query reports must not depend on the queries before it."""
    ds, slon, slat = _dset(env, ns, dconv)
    try:
        if first == "same_query":
            pass    # the earlier selection is made by _nearest_claims with the very arrays of the second one
        elif first == "bbox":
            box = ([-60.0, -1.0] if fconv == 180 else [181.0, 300.0])   # part of the globe: selects a subset of the stations
            ds.spec.sel(box, [-89.0, 89.0], method="bbox", tolerance=1.0)
        else:
            ds.spec.sel([-20.0 if fconv == 180 else 340.0], [0.0], method="nearest", tolerance=1000.0)
    except (ValueError, AssertionError):
        pass
    _nearest_claims(env, ds, slon, slat, ns, qconv, note="after an earlier selection: ", reuse=(first == "same_query"))


def _conv(x, conv):
    return x % 360 if conv == 360 else ((x + 180) % 360) - 180


def _lon_ok(env, got, src, qconv):
    """got is the same meridian as src and lies in the range of the query's convention."""
    k = (got - src) / 360.0
    if isinstance(k, Sym):
        integral = SymBool(z3.ToReal(z3.ToInt(k.e)) == k.e)
    else:
        integral = abs(k - round(k)) < 1e-12
    rng = AND(got >= 0, got <= 360) if qconv == 360 else AND(got >= -180, got <= 180)
    return AND(integral, rng)


@harness(P, quick=[dict(ns=2, dconv=360, qconv=180, max_sites=4), dict(ns=2, dconv=180, qconv=360, max_sites=4), dict(ns=2, dconv=360, qconv=360, max_sites=1)],
         thorough=grid(ns=[2], dconv=[360, 180], qconv=[360, 180], max_sites=[4]) + grid(ns=[3], dconv=[360, 180], qconv=[360, 180], max_sites=[2, 4]), max_paths=4000, time_budget=300, hard_timeout=600, time_budget_thorough=2400, hard_timeout_thorough=2700)
def idw(env, ns, dconv, qconv, max_sites):
    """idw: convex combination of up to max_sites stations within tolerance, weights ~ 1/distance; the station itself at
    zero distance; missing with fewer than two stations in range."""
    ds, slon, slat = _dset(env, ns, dconv)
    qlon, qlat = _lon(env, "qlon", qconv), env.real("qlat", lo=-90.0, hi=90.0)
    if qconv == 180:
        env.assume(qlon < 0)
    tol = env.real("tol", lo=0.0, hi=5.0)
    d2 = [_d2(slon[k], slat[k], qlon, qlat) for k in range(ns)]
    import wavespectra.core.select as SEL
    from vt.symreal import stubs as ST
    with env.lazy_sqrt(), env.stubs(lambda: ST.float_identity(SEL)):
        out = ds.spec.sel([qlon], [qlat], method="idw", tolerance=tol, max_sites=max_sites)
    val = env.resolve(out.efth.values.ravel()[0])
    within = [d2[k] <= tol * tol for k in range(ns)]
    # which stations take part: within tolerance, the max_sites nearest ones
    member = []
    for k in range(ns):
        if env.proves(within[k]):
            member.append(True)
        elif env.proves(NOT(within[k])):
            member.append(False)
        else:
            env.claim(False, "path condition does not determine tolerance membership (harness cannot decide)")
            return
    inside = [k for k in range(ns) if member[k]]
    exact = [k for k in inside if env.proves(d2[k] == 0)]
    if isnan(val):
        env.claim(min(len(inside), max_sites) < 2 and not exact, "idw is missing only with fewer than two usable stations in range (and no exact hit)", {"inside": inside})
        return
    if exact:
        env.claim(OR(*[near(env, val, TAGS[k], rel=1e-9) for k in exact]), "idw returns the station itself at zero distance")
        return
    env.claim(min(len(inside), max_sites) >= 2, "idw defined only with at least two usable stations in range", {"inside": inside})
    if min(len(inside), max_sites) < 2:
        return
    if len(inside) > max_sites:
        # keep the max_sites nearest: determine the order from the path condition
        order = sorted(inside, key=lambda k: 0)
        ranked = []
        rest = list(inside)
        while rest and len(ranked) < max_sites:
            for k in rest:
                if all(env.proves(d2[k] <= d2[j]) for j in rest if j != k):
                    ranked.append(k)
                    rest.remove(k)
                    break
            else:
                env.claim(False, "path condition does not determine the order of the stations (harness cannot decide)")
                return
        inside = ranked
    # val * sum(1/d) == sum(tag/d)   with d = sqrt(d2)
    ds_ = [env.sqrt(d2[k]) for k in inside]
    lhs = val * sum(1.0 / d for d in ds_)
    rhs = sum(TAGS[k] / d for k, d in zip(inside, ds_))
    env.claim(near(env, lhs, rhs, rel=1e-7, abs_=0.0, ctol=1e-5), "idw weights are proportional to 1/distance over the stations in range", {"stations": inside})
    glon = out.lon.values.ravel()[0]
    env.claim(_lon_ok(env, glon, qlon, qconv), "idw reports the query longitude in the query's convention")


@harness(P, quick=grid(ns=[2], dconv=[360, 180], qconv=[360, 180]), thorough=grid(ns=[3], dconv=[360, 180], qconv=[360, 180]), max_paths=6000, time_budget=330, hard_timeout=600, time_budget_thorough=2400, hard_timeout_thorough=2700)
def bbox(env, ns, dconv, qconv):
    """bbox: exactly the stations whose position, longitude expressed in the query's convention, lies in
    [min(lons)-tol, max(lons)+tol] x [min(lats)-tol, max(lats)+tol]; ValueError iff there is none."""
    ds, slon, slat = _dset(env, ns, dconv)
    q1, q2 = _lon(env, "qlon0", qconv), _lon(env, "qlon1", qconv)
    l1, l2 = env.real("qlat0", lo=-90.0, hi=90.0), env.real("qlat1", lo=-90.0, hi=90.0)
    env.assume(AND(q1 <= q2, l1 <= l2))
    if qconv == 180:
        env.assume(q1 < 0)
    tol = env.real("tol", lo=0.0, hi=5.0)
    lo_, hi_ = (0.0, 360.0) if qconv == 360 else (-180.0, 180.0)
    env.assume(AND(q1 - tol >= lo_, q2 + tol <= hi_))  # the widened box stays on the query's longitude axis
    inside = [AND(_conv(slon[k], qconv) >= q1 - tol, _conv(slon[k], qconv) <= q2 + tol, slat[k] >= l1 - tol, slat[k] <= l2 + tol) for k in range(ns)]
    # a station exactly on the seam of the query's convention (0/360 or +-180) has two equally valid expressions
    for k in range(ns):
        env.assume(AND(_conv(slon[k], qconv) != lo_, _conv(slon[k], qconv) != hi_))
    try:
        out = ds.spec.sel([q1, q2], [l1, l2], method="bbox", tolerance=tol)
    except ValueError:
        env.claim(AND(*[NOT(c) for c in inside]), "bbox raises only when no station lies in the box")
        return
    tags = [float(x) for x in out.efth.isel(freq=0, dir=0).values.ravel()]
    got = [TAGS.index(t) for t in tags if t in TAGS]
    env.claim(len(got) == len(tags) and len(set(got)) == len(got), "bbox returns existing stations, each once", {"tags": tags})
    env.claim(AND(*[(inside[k] if k in got else NOT(inside[k])) for k in range(ns)]), "bbox returns exactly the stations inside the (tolerance-widened) box of the query's convention", {"returned": got})
    for n, k in enumerate(got):
        env.claim(_lon_ok(env, out.lon.values.ravel()[n], slon[k], qconv), "bbox reports longitudes in the query's convention")
