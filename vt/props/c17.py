"""C17 No operation modifies the data it is given (Engine S: pre/post snapshots of symbolic cells)."""
import copy

import numpy as np
import xarray as xr
import z3

from vt.harness import grid, harness
from vt.props import ops as O
from vt.props.common import AND, NOT, OR, mk_spec, total
from vt.refs import native as N
from vt.symreal import stubs as ST
from vt.symreal import sym as S
from vt.symreal.sym import Sym, SymBool

P = "C17"

META = dict(
    level="model_checking",
    encoded=["every operation of vt/props/ops.py (accessor statistics, transforms, rule-based partitions)", "SpecDataset.sel (nearest/idw/bbox)", "from_ww3/from_ncswan/from_wwm/from_era5/from_ndbc/read_dataset",
             "SpecDataset._check_and_stack_dims", "utils.scaled/regrid_spec/smooth_spec", "construct_partition", "np_ptm1/np_ptm2/np_ptm3 (label-map stub)", "to_swan/to_octopus (text layer stub, see C11)"],
    encoded_files=["wavespectra/specarray.py", "wavespectra/specdataset.py", "wavespectra/core/select.py", "wavespectra/core/utils.py", "wavespectra/core/attributes.py", "wavespectra/partition/partition.py",
                   "wavespectra/input/ww3.py", "wavespectra/input/ncswan.py", "wavespectra/input/wwm.py", "wavespectra/input/era5.py", "wavespectra/input/ndbc.py"],
    bounds="each operation once per grid (G1 / P4, one leading dim of size 2) on symbolic data; argument objects snapshotted before the call: every data cell (term identity), the caller-owned numpy buffers behind the arrays, coordinates, attributes, encodings, dims and their order, names; selections with symbolic query longitudes in either convention passed as caller-owned numpy arrays; every feasible path of the call is followed",
    outside="dask-backed inputs; plot; writers other than SWAN/Octopus; bit-level identity of float payloads (cells are compared as terms/values)",
    assumptions=["spectrum bins are finite reals >= 0"],
)


def snap(x):
    """Deep snapshot of an argument object."""
    if isinstance(x, xr.Dataset):
        return ("ds", {k: snap(v) for k, v in x.variables.items()}, copy.deepcopy(dict(x.attrs)), copy.deepcopy(dict(x.encoding)), dict(x.sizes), list(x.data_vars), list(x.coords))
    if isinstance(x, (xr.DataArray, xr.Variable)):
        coords = {k: snap(v.variable) for k, v in x.coords.items()} if isinstance(x, xr.DataArray) else {}
        return ("da", tuple(x.dims), str(x.dtype), snap(np.asarray(x.values)), coords, copy.deepcopy(dict(x.attrs)), copy.deepcopy(dict(x.encoding)), getattr(x, "name", None))
    if isinstance(x, np.ndarray):
        return ("nd", x.shape, str(x.dtype), [v for v in x.ravel()] if x.dtype == object else x.copy())
    if isinstance(x, (list, tuple)):
        return ("seq", type(x).__name__, [snap(v) for v in x])
    if isinstance(x, dict):
        return ("dict", {k: snap(v) for k, v in x.items()})
    return ("val", x)


def same(env, before, after, label):
    """Claim that snapshot `before` still describes object `after`."""
    now = snap(after)
    _same(env, before, now, label)


def _same(env, a, b, label):
    env.claim(a[0] == b[0], label + ": same kind of object")
    if a[0] != b[0]:
        return
    k = a[0]
    if k == "ds":
        env.claim(a[4] == b[4] and a[5] == b[5] and a[6] == b[6] and list(a[1]) == list(b[1]), label + ": dataset variables, coordinates and sizes unchanged", {"before": [a[4], a[5], a[6]], "after": [b[4], b[5], b[6]]})
        env.claim(_plain_eq(a[2], b[2]), label + ": dataset attributes unchanged")
        env.claim(_plain_eq(a[3], b[3]), label + ": dataset encoding unchanged")
        for name in a[1]:
            if name in b[1]:
                _same(env, a[1][name], b[1][name], label + "[%s]" % name)
    elif k == "da":
        env.claim(a[1] == b[1], label + ": dims and their order unchanged", {"before": a[1], "after": b[1]})
        env.claim(a[2] == b[2], label + ": dtype unchanged")
        _same(env, a[3], b[3], label + ".values")
        env.claim(list(a[4]) == list(b[4]), label + ": coordinate names unchanged")
        for c in a[4]:
            if c in b[4]:
                _same(env, a[4][c], b[4][c], label + ".coords[%s]" % c)
        env.claim(_plain_eq(a[5], b[5]), label + ": attributes unchanged", {"before": str(a[5])[:200], "after": str(b[5])[:200]})
        env.claim(_plain_eq(a[6], b[6]), label + ": encoding unchanged")
        env.claim(a[7] == b[7], label + ": name unchanged")
    elif k == "nd":
        env.claim(a[1] == b[1] and a[2] == b[2], label + ": shape and dtype unchanged", {"before": [a[1], a[2]], "after": [b[1], b[2]]})
        if a[1] != b[1]:
            return
        if a[2] == "object":
            ident = all(x is y for x, y in zip(a[3], b[3]))
            if ident:
                env.claim(True, label + ": every cell is the same object")
            else:
                env.equal([_num(v) for v in a[3]], [_num(v) for v in b[3]], label + ": every cell has the value it had before the call")
        else:
            if a[3].dtype.kind in "fc":
                env.claim(bool(np.array_equal(a[3], b[3], equal_nan=True)), label + ": every cell has the value it had before the call")
            else:
                env.claim(bool(np.array_equal(a[3], b[3])), label + ": every cell has the value it had before the call")
    elif k == "seq":
        env.claim(a[1] == b[1] and len(a[2]) == len(b[2]), label + ": sequence type and length unchanged")
        for i, (x, y) in enumerate(zip(a[2], b[2])):
            _same(env, x, y, label + "[%d]" % i)
    elif k == "dict":
        env.claim(list(a[1]) == list(b[1]), label + ": keys unchanged", {"before": list(a[1]), "after": list(b[1])})
        for key in a[1]:
            if key in b[1]:
                _same(env, a[1][key], b[1][key], label + "[%r]" % key)
    else:
        x, y = a[1], b[1]
        if isinstance(x, (Sym, SymBool)) or isinstance(y, (Sym, SymBool)):
            env.equal([x], [y], label + ": value unchanged")
        else:
            env.claim(_plain_eq(x, y), label + ": value unchanged", {"before": str(x)[:100], "after": str(y)[:100]})


def _num(v):
    return v


def _plain_eq(x, y):
    try:
        if isinstance(x, dict) and isinstance(y, dict):
            return list(x) == list(y) and all(_plain_eq(x[k], y[k]) for k in x)
        if isinstance(x, np.ndarray) or isinstance(y, np.ndarray):
            return bool(np.array_equal(np.asarray(x), np.asarray(y)))
        if isinstance(x, float) and isinstance(y, float) and x != x and y != y:
            return True
        return bool(x == y)
    except Exception:
        return x is y


ALLOPS = O.CHEAP + O.ROOTS + O.TRANSFORMS + O.PARTS + ["hrms", "uss", "swe"]


@harness(P, quick=grid(op=sorted(set(ALLOPS)), g=["G1"]) + grid(op=O.PEAKS, g=["P4"]) + grid(op=["smooth", "smooth13", "rotate", "ptm4", "bbox", "hs", "dm"], g=["G1"], intdir=[True]), thorough=grid(op=sorted(set(ALLOPS)), g=["G2", "D6"]) + grid(op=O.PEAKS_SLOW, g=["P4"]), max_paths=3000)
def accessor_ops(env, op, g, intdir=False):
    """The DataArray (and the numpy buffer behind it), wind and depth arrays are unchanged after the call."""
    from vt.props.c02 import PG
    lead = (("site", 2),)
    if g in PG:
        da, vals = mk_spec(env, (np.array(PG[g]["freq"]), np.array(PG[g]["dir"])), lead=lead)
    else:
        da, vals = mk_spec(env, g, lead=lead)
    if intdir:
        # integer-typed, already sorted direction coordinate (as produced by np.arange(0, 360, 90))
        da = da.assign_coords(dir=np.asarray(da.dir.values, dtype=np.int64))
    da.attrs = {"units": "m2/Hz/deg", "note": "caller attribute"}
    da.encoding = {"dtype": "float32", "zlib": True}
    da["freq"].attrs = {"units": "Hz"}
    for p in range(2):
        env.assume(total(vals[p]) > 0)
    aux = None
    if O.OPS[op].get("wind"):
        ws = np.array([env.real("wspd_%d" % p, lo=0.0, hi=60.0) for p in range(2)], dtype=object if env.sym else float)
        mk = lambda arr: xr.DataArray(arr, dims=("site",), coords={"site": da.site})
        aux = dict(wspd=mk(ws), wdir=mk(np.array([10.0, 200.0])), dpt=mk(np.array([30.0, 400.0])))
    b_da, b_buf, b_aux = snap(da), snap(vals), snap(aux)
    try:
        O.run(env, op, da, aux)
    finally:
        same(env, b_da, da, "%s: DataArray" % op)
        same(env, b_buf, vals, "%s: caller-owned buffer" % op)
        same(env, b_aux, aux, "%s: wind/depth arguments" % op)


@harness(P, quick=[dict(method="bbox", dconv=180, qconv=360), dict(method="bbox", dconv=360, qconv=180), dict(method="nearest", dconv=180, qconv=360), dict(method="idw", dconv=180, qconv=360)], thorough=grid(method=["nearest", "idw", "bbox"], dconv=[180, 360], qconv=[360, 180], ns=[2, 3]), max_paths=3000, time_budget=150, time_budget_thorough=1500, hard_timeout_thorough=1800)
def selection(env, method, dconv, qconv, ns=2):
    """sel: the dataset, the query arrays (caller-owned numpy buffers) and the optional station arrays are unchanged."""
    from vt.props.c14 import _dset, _lon
    import wavespectra.core.select as SEL
    ds, slon, slat = _dset(env, ns, dconv)
    q = [_lon(env, "qlon%d" % i, qconv) for i in range(2)]
    if qconv == 180:
        env.assume(q[0] < 0)
    else:
        env.assume(q[0] > 180)
    dt = object if env.sym else float
    qlons = np.array(q, dtype=dt)
    qlats = np.array([env.real("qlat%d" % i, lo=-90.0, hi=90.0) for i in range(2)], dtype=dt)
    dset_lons = np.array(slon, dtype=dt)
    dset_lats = np.array(slat, dtype=dt)
    tol = env.real("tol", lo=0.0, hi=400.0)
    kw = dict(lons=qlons, lats=qlats, method=method, tolerance=tol, dset_lons=dset_lons, dset_lats=dset_lats)
    before = snap(dict(dataset=ds, **kw))
    try:
        with env.lazy_sqrt(), env.stubs(lambda: ST.float_identity(SEL)):
            ds.spec.sel(**kw)
    except (AssertionError, ValueError):
        pass
    finally:
        same(env, before, dict(dataset=ds, **kw), "sel(%s)" % method)


@harness(P, quick=grid(reader=["ww3", "ncswan", "wwm", "era5", "ndbc"], via=["direct", "read_dataset"]), thorough=[])
def readers(env, reader, via):
    """reader helpers leave the native dataset untouched (values, names, coordinates, attributes)."""
    from wavespectra.input.dataset import read_dataset
    import importlib
    build = getattr(N, reader)
    ds, info = build(env)
    ds.attrs = {"title": "native file"}
    for v in ds.variables:
        ds[v].attrs["native"] = v
    if reader == "era5":
        fn = importlib.import_module("wavespectra.input.era5").from_era5
        call = lambda: fn(ds, freqs=[0.03, 0.04, 0.05], dirs=[7.5, 97.5, 187.5, 277.5])
        ds2 = ds
    else:
        fn = getattr(importlib.import_module("wavespectra.input." + reader), "from_" + reader)
        call = (lambda: fn(ds)) if via == "direct" else (lambda: read_dataset(ds))
    if reader == "era5" and via == "read_dataset":
        return
    before = snap(ds)
    try:
        with env.lazy_sqrt():
            call()
    finally:
        same(env, before, ds, "from_%s input" % reader)


@harness(P, quick=grid(layout=["site", "grid", "scalar_lonlat", "nosite"]))
def stack_dims(env, layout):
    """_check_and_stack_dims (first step of the ascii writers) works on a copy."""
    da, vals = mk_spec(env, "G3", lead=(("time", 2),))
    if layout == "site":
        ds = da.expand_dims(site=[1, 2]).to_dataset(name="efth")
        ds["lon"] = (("site",), [10.0, 11.0])
        ds["lat"] = (("site",), [-5.0, -6.0])
    elif layout == "grid":
        ds = da.expand_dims(lat=[-5.0, -6.0], lon=[10.0, 11.0, 12.0]).to_dataset(name="efth")
    elif layout == "scalar_lonlat":
        ds = da.expand_dims(site=[1]).to_dataset(name="efth")
        ds["lon"] = ((), 10.0)
        ds["lat"] = ((), -5.0)
    else:
        ds = da.to_dataset(name="efth")
        ds["lon"] = ((), 10.0)
        ds["lat"] = ((), -5.0)
    ds.attrs = {"title": "caller"}
    before = snap(ds)
    try:
        ds.spec._check_and_stack_dims()
    finally:
        same(env, before, ds, "_check_and_stack_dims(%s)" % layout)


@harness(P, quick=[{}])
def helpers(env):
    """utils.scaled, construct_partition, set_spec_attributes leave their arguments alone."""
    from wavespectra.core import utils
    da, vals = mk_spec(env, "G1")
    env.assume(total(vals) > 0)
    hs = xr.DataArray(np.array(2.5))
    b1, b2 = snap(da), snap(hs)
    utils.scaled(da, hs)
    same(env, b1, da, "scaled: spectrum")
    same(env, b2, hs, "scaled: hs")
    freq = xr.DataArray(np.array([0.05, 0.1, 0.2]), dims=("freq",), coords={"freq": [0.05, 0.1, 0.2]}, name="freq")
    dirs = xr.DataArray(np.arange(0.0, 360.0, 90.0), dims=("dir",), coords={"dir": np.arange(0.0, 360.0, 90.0)}, name="dir")
    fk = {"freq": freq, "hs": 2.0, "fp": 0.1}
    dk = {"dir": dirs, "dm": 40.0, "dspr": 25.0}
    b = snap(dict(fk=fk, dk=dk))
    from wavespectra.construct import construct_partition
    construct_partition("pierson_moskowitz", "cartwright", fk, dk)
    same(env, b, dict(fk=fk, dk=dk), "construct_partition keyword dictionaries")
