"""C19 Partition tracking assigns consistent wave-system identifiers over time (Engine S, inductive decomposition)."""
import itertools

import numpy as np
import xarray as xr
import z3

from vt.harness import grid, harness
from vt.props.common import AND, IMPLIES, NOT, OR, isnan, near
from vt.symreal import stubs as ST
from vt.symreal import sym as S
from vt.symreal.symarray import as_symarray
from vt.symreal.sym import CF, Sym, SymBool

P = "C19"

META = dict(
    level="model_checking",
    encoded=["tracking.match_consecutive_partitions", "tracking.np_track_partitions", "tracking.track_partitions (apply_ufunc wrapper)", "tracking.dfp_swell"],
    encoded_files=["wavespectra/partition/tracking.py", "wavespectra/partition/partition.py"],
    bounds="step lemma: 2 partitions (quick) / 3 partitions (thorough) with symbolic peak frequencies in (0,1) and peak directions in [0,360) at two consecutive steps, every pattern of empty partitions, the four thresholds symbolic; propagation lemma: 2-3 partitions x 3-4 time steps with the per-step matcher replaced by EVERY vector its postcondition allows; glue: the real np_track_partitions on 2 partitions x 3 steps with symbolic statistics and wind-sea thresholds; wrapper on two sites",
    outside="the fetch-law arithmetic inside dfp_wsea (x**0.57, x**(-1/0.43)): the sea threshold is an arbitrary real instead, a superset; dask execution of the wrapper; IEEE rounding",
    assumptions=["peak frequencies in (0,1), peak directions in [0,360), thresholds positive (sea frequency threshold negative, as the fetch law produces)", "constant time step"],
)


def _stats(env, npart, pattern):
    """fp, dpm arrays (npart, 2) with NaN where pattern says empty. pattern: string over 'x' (present) / '-' (empty), prev then cur."""
    dt = object if env.sym else float
    fp = np.empty((npart, 2), dtype=dt)
    dpm = np.empty((npart, 2), dtype=dt)
    for t in range(2):
        for p in range(npart):
            if pattern[t * npart + p] == "x":
                fp[p, t] = env.real("fp_%d_%d" % (p, t), lo=0.02, hi=1.0)
                dpm[p, t] = env.real("dpm_%d_%d" % (p, t), lo=0.0, hi=360.0, hi_strict=True)
            else:
                fp[p, t] = CF("nan") if env.sym else np.nan
                dpm[p, t] = CF("nan") if env.sym else np.nan
    return fp, dpm


def _ddpm(a, b):
    """| ((cur - prev + 180) mod 360) - 180 |"""
    d = ((a - b) + 180) % 360 - 180
    if isinstance(d, Sym):
        return Sym(z3.If(d.e >= 0, d.e, -d.e))
    return abs(d)


def _patterns(npart):
    return ["".join(p) for p in itertools.product("x-", repeat=2 * npart)]


@harness(P, quick=[dict(npart=2, pattern=p) for p in _patterns(2)], thorough=[dict(npart=3, pattern=p) for p in _patterns(3) if p.count("x") >= 3],
         max_paths=30000, time_budget=500, time_budget_thorough=3000, hard_timeout_thorough=3300, witnesses=3)
def step_lemma(env, npart, pattern):
    """one matching step from an arbitrary pair of consecutive states."""
    from wavespectra.partition import tracking as TR
    fp, dpm = _stats(env, npart, pattern)
    sea_min = env.real("dfp_sea_max", lo=-0.5, hi=0.0, hi_strict=True)       # the fetch law gives a negative bound for the sea
    swell = env.real("dfp_swell_max", lo=0.0, hi=0.5, lo_strict=True)
    dsea = env.real("ddpm_sea_max", lo=1.0, hi=180.0)
    dswell = env.real("ddpm_swell_max", lo=1.0, hi=180.0)
    if env.sym:
        with env.stubs(lambda: ST.isnan_aware(TR)):
            m = TR.match_consecutive_partitions(as_symarray(fp), as_symarray(dpm), sea_min, swell, dsea, dswell)
    else:
        m = TR.match_consecutive_partitions(fp, dpm, float(sea_min), float(swell), float(dsea), float(dswell))
    m = [int(x) for x in np.asarray(m).ravel()]
    env.claim(len(m) == npart, "one entry per current partition")
    cur_empty = [pattern[npart + p] == "-" for p in range(npart)]
    prev_empty = [pattern[p] == "-" for p in range(npart)]
    env.claim(all((m[p] == -999) == cur_empty[p] for p in range(npart)), "the missing marker exactly for empty current partitions", {"matches": m})
    pos = [x for x in m if x >= 0]
    env.claim(len(set(pos)) == len(pos), "each previous partition is continued by at most one current partition", {"matches": m})
    env.claim(all(0 <= x < npart and not prev_empty[x] for x in pos), "matches point at non-empty previous partitions", {"matches": m})
    env.claim(all(x in (-999, -888) or x >= 0 for x in m), "entries are a previous index, -888 (new) or -999 (missing)", {"matches": m})

    def inside(ic, ip):
        dd = _ddpm(dpm[ic, 1], dpm[ip, 0])
        df = fp[ic, 1] - fp[ip, 0]
        return AND(dd < (dsea if ip == 0 else dswell), df < swell, df > (sea_min if ip == 0 else -swell))

    available = [p for p in range(npart) if not prev_empty[p]]
    for ic in range(npart):
        if cur_empty[ic]:
            continue
        if m[ic] >= 0:
            if m[ic] < npart and not prev_empty[m[ic]]:
                env.claim(inside(ic, m[ic]), "a carried identifier stays strictly inside the direction and frequency thresholds of the previous partition's kind", {"current": ic, "previous": m[ic]})
            if m[ic] in available:
                available.remove(m[ic])
        elif m[ic] == -888:
            env.claim(AND(*[NOT(inside(ic, ip)) for ip in available]), "a new identifier is issued only when no still-available previous partition is inside the thresholds", {"current": ic, "available": list(available)})


def _valid_vectors(npart, prev_present, cur_present):
    """every match vector the step lemma allows for the given presence pattern."""
    opts = []
    for c in range(npart):
        if not cur_present[c]:
            opts.append([-999])
        else:
            opts.append([-888] + [p for p in range(npart) if prev_present[p]])
    out = []
    for v in itertools.product(*opts):
        pos = [x for x in v if x >= 0]
        if len(set(pos)) == len(pos):
            out.append(list(v))
    return out


@harness(P, quick=grid(npart=[2], nt=[3, 4]) + grid(npart=[3], nt=[3]), thorough=grid(npart=[3], nt=[4]), max_paths=400000, time_budget=500, time_budget_thorough=3000, hard_timeout_thorough=3300, witnesses=1)
def propagation_lemma(env, npart, nt):
    """identifier propagation over any sequence of per-step matches allowed by the step lemma."""
    from wavespectra.partition import tracking as TR
    if not env.sym:
        # replay on the REAL function: the presence pattern of the counterexample is realised with slot-specific
        # statistics (each present partition keeps its own frequency/direction, 0.1 Hz apart), for which the real
        # matcher continues a slot iff it was present at the previous step
        present = [[(int(env.inputs.get("present_%d" % t, 0)) >> p) & 1 == 1 for p in range(npart)] for t in range(nt)]
        fp = np.array([[0.1 + 0.1 * p if present[t][p] else np.nan for t in range(nt)] for p in range(npart)])
        dpm = np.array([[40.0 + 100.0 * p if present[t][p] else np.nan for t in range(nt)] for p in range(npart)])
        times = np.array("2020-01-01T00", dtype="datetime64[ns]") + np.arange(nt) * np.timedelta64(3, "h")
        ids, n = TR.np_track_partitions(times, fp, dpm, np.full(nt, 10.0))
        ids = np.asarray(ids).astype(int)
        info = {"present": present, "ids": ids.tolist(), "n": int(n)}
        env.claim(all((ids[p, t] == -999) == (not present[t][p]) for p in range(npart) for t in range(nt)), "identifier for every non-empty partition, missing marker for every empty one", info)
        for t in range(nt):
            col = [ids[p, t] for p in range(npart) if present[t][p]]
            env.claim(len(set(col)) == len(col), "no identifier is used twice within a time step", info)
        seen = []
        for t in range(nt):
            for p in range(npart):
                if present[t][p] and ids[p, t] not in seen:
                    seen.append(int(ids[p, t]))
        env.claim(seen == list(range(int(n))), "identifiers are exactly 0..N-1 in order of first appearance, N the reported count", info)
        for t in range(1, nt):
            for p in range(npart):
                if present[t][p] and present[t - 1][p]:
                    env.claim(ids[p, t] == ids[p, t - 1], "an identifier is carried along a match", info)
                elif present[t][p]:
                    env.claim(all(ids[p, t] != ids[q, s] for s in range(t) for q in range(npart) if present[s][q]), "an unmatched partition gets an identifier never used before (a discontinued one never reappears)", info)
        return
    # presence pattern per step, then one allowed match vector per step: all chosen by forking
    present = []
    for t in range(nt):
        k = env.choice("present_%d" % t, 2 ** npart)
        present.append([(k >> p) & 1 == 1 for p in range(npart)])
    vectors = []
    for t in range(1, nt):
        vs = _valid_vectors(npart, present[t - 1], present[t])
        vectors.append(vs[env.choice("match_%d" % t, len(vs))])
    fp = np.array([[0.1 if present[t][p] else np.nan for t in range(nt)] for p in range(npart)], dtype=float)
    dpm = fp * 100
    calls = {"n": 0}

    def fake_match(fp, dpm, **kw):
        v = vectors[calls["n"]]
        calls["n"] += 1
        return np.array(v, dtype="int16")

    times = np.array("2020-01-01T00", dtype="datetime64[ns]") + np.arange(nt) * np.timedelta64(3, "h")
    f = ST.rebind(TR.np_track_partitions, match_consecutive_partitions=fake_match, dfp_wsea=lambda wspd, fp, dt, scaling=1.0: np.full(np.shape(fp), -0.01))
    ids, n = f(times, fp, dpm, np.full(nt, 10.0))
    ids = np.asarray(ids).astype(int)
    n = int(n)
    info = {"present": present, "matches": vectors, "ids": ids.tolist(), "n": n}
    env.claim(calls["n"] == nt - 1, "one matching step per pair of consecutive times")
    ok_missing = all((ids[p, t] == -999) == (not present[t][p]) for p in range(npart) for t in range(nt))
    env.claim(ok_missing, "identifier for every non-empty partition, missing marker for every empty one", info)
    for t in range(nt):
        col = [ids[p, t] for p in range(npart) if present[t][p]]
        env.claim(len(set(col)) == len(col), "no identifier is used twice within a time step", info)
    seen = []
    for t in range(nt):
        for p in range(npart):
            if present[t][p] and ids[p, t] not in seen:
                seen.append(int(ids[p, t]))
    env.claim(seen == list(range(n)), "identifiers are exactly 0..N-1 in order of first appearance, N the reported count", info)
    for t in range(1, nt):
        prev_ids = {int(ids[p, t - 1]) for p in range(npart) if present[t - 1][p]}
        for p in range(npart):
            if not present[t][p]:
                continue
            v = vectors[t - 1][p]
            if v >= 0:
                env.claim(ids[p, t] == ids[v, t - 1], "an identifier is carried along a match", info)
            else:
                env.claim(all(ids[p, t] != ids[q, s] for s in range(t) for q in range(npart) if present[s][q]), "an unmatched partition gets an identifier never used before (a discontinued one never reappears)", info)


@harness(P, quick=[dict(pattern="xxxxxx"), dict(pattern="xxx-xx"), dict(pattern="xx--xx"), dict(pattern="--xxx-")], thorough=[dict(pattern="xx-xxx"), dict(pattern="x-xxxx"), dict(pattern="x---xx")], max_paths=30000, time_budget=500, witnesses=2)
def glue(env, pattern):
    """the real np_track_partitions on 2 partitions x 3 steps: per-step slices, threshold indexing and dt are the ones the lemmas assume."""
    from wavespectra.partition import tracking as TR
    npart, nt = 2, 3
    dt_ = object if env.sym else float
    fp = np.empty((npart, nt), dtype=dt_)
    dpm = np.empty((npart, nt), dtype=dt_)
    for t in range(nt):
        for p in range(npart):
            if pattern[t * npart + p] == "x":
                fp[p, t] = env.real("fp_%d_%d" % (p, t), lo=0.02, hi=1.0)
                dpm[p, t] = env.real("dpm_%d_%d" % (p, t), lo=0.0, hi=360.0, hi_strict=True)
            else:
                fp[p, t] = CF("nan") if env.sym else np.nan
                dpm[p, t] = CF("nan") if env.sym else np.nan
    times = np.array("2020-01-01T00", dtype="datetime64[ns]") + np.arange(nt) * np.timedelta64(3, "h")
    thr = [env.real("sea_thr_%d" % t, lo=-0.5, hi=-1e-4) for t in range(nt)]
    recorded = []
    real_match = TR.match_consecutive_partitions

    def spy(fp, dpm, dfp_sea_max, dfp_swell_max, ddpm_sea_max, ddpm_swell_max):
        recorded.append(dict(fp=np.array(fp, dtype=object), dpm=np.array(dpm, dtype=object), sea=dfp_sea_max, swell=dfp_swell_max, dsea=ddpm_sea_max, dswell=ddpm_swell_max))
        return real_match(fp, dpm, dfp_sea_max, dfp_swell_max, ddpm_sea_max, ddpm_swell_max)

    def fake_wsea(wspd, fp, dt, scaling=1.0):
        recorded.append(dict(dt=dt))
        return np.array(thr, dtype=dt_)

    f = ST.rebind(TR.np_track_partitions, match_consecutive_partitions=spy, dfp_wsea=fake_wsea)
    if env.sym:
        with env.stubs(lambda: ST.isnan_aware(TR)):
            f = ST.rebind(TR.np_track_partitions, match_consecutive_partitions=spy, dfp_wsea=fake_wsea)
            ids, n = f(times, as_symarray(fp), as_symarray(dpm), np.full(nt, 10.0), ddpm_sea_max=30, ddpm_swell_max=20)
    else:
        ids, n = f(times, fp, dpm, np.full(nt, 10.0), ddpm_sea_max=30, ddpm_swell_max=20)
    env.claim(recorded and recorded[0].get("dt") == 3 * 3600.0, "dt is the constant step in seconds", {"dt": recorded[0].get("dt") if recorded else None})
    steps = [r for r in recorded if "fp" in r]
    env.claim(len(steps) == nt - 1, "one matching step per pair of consecutive times")
    for t, r in enumerate(steps, start=1):
        same = all((r["fp"][p, k] is fp[p, t - 1 + k]) or (not isinstance(fp[p, t - 1 + k], Sym) and isnan(r["fp"][p, k]) == isnan(fp[p, t - 1 + k]) and (isnan(fp[p, t - 1 + k]) or float(r["fp"][p, k]) == float(fp[p, t - 1 + k]))) for p in range(npart) for k in range(2))
        env.claim(same, "step %d is matched on the statistics of steps %d and %d" % (t, t - 1, t))
        env.claim(r["sea"] is thr[t - 1] or (not isinstance(thr[t - 1], Sym) and float(r["sea"]) == float(thr[t - 1])), "the wind-sea threshold of step %d is the one of the PREVIOUS time step" % t)
        env.claim(float(r["dsea"]) == 30 and float(r["dswell"]) == 20, "direction thresholds passed through")
        env.claim(near(env, r["swell"], 3 * 3600.0 * 9.80665 / (4 * np.pi * 1e6), rel=1e-9), "swell threshold = dt g / (4 pi distance)")
    ids = np.asarray(ids).astype(int)
    for t in range(nt):
        col = [ids[p, t] for p in range(npart) if pattern[t * npart + p] == "x"]
        env.claim(len(set(col)) == len(col) and all(c >= 0 for c in col), "distinct non-negative identifiers within a step", {"ids": ids.tolist()})
    env.claim(sorted(set(int(x) for x in ids.ravel() if x >= 0)) == list(range(int(n))), "identifiers are 0..N-1, N the reported count", {"ids": ids.tolist(), "n": int(n)})


@harness(P, quick=[{}])
def wrapper_sites(env):
    """track_partitions: sites are tracked independently (each site equals tracking that site alone)."""
    from wavespectra.partition import tracking as TR
    nt, npart, ns = 3, 2, 2
    rng = np.random.default_rng(3)
    fp = 0.1 + 0.02 * rng.random((ns, npart, nt))
    dpm = 100 + 30 * rng.random((ns, npart, nt))
    fp[1, 1, 1] = np.nan
    dpm[1, 1, 1] = np.nan
    fp[0, 0, 2] += 0.3
    times = np.array("2020-01-01T00", dtype="datetime64[ns]") + np.arange(nt) * np.timedelta64(3, "h")
    stats = xr.Dataset({"fp": (("site", "part", "time"), fp), "dpm": (("site", "part", "time"), dpm)}, coords={"site": [0, 1], "part": [0, 1], "time": times})
    wspd = xr.DataArray(10.0 + np.zeros((ns, nt)), dims=("site", "time"), coords={"site": [0, 1], "time": times})
    out = TR.track_partitions(stats, wspd)
    for s in range(ns):
        ids, n = TR.np_track_partitions(times, fp[s], dpm[s], np.full(nt, 10.0))
        env.claim(np.array_equal(np.asarray(out.part_id.isel(site=s).transpose("part", "time").values), ids) and int(out.npart_id.isel(site=s)) == int(n), "site %d tracked as on its own" % s)
