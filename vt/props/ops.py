"""Catalogue of public operations shared by the relational / meta properties (C05, C06, C17, C18).

Each op: name -> dict(fn(da, aux) -> DataArray | tuple | Dataset, stubs=[...], wind=bool, peak=bool)
`aux` carries per-position wind/depth DataArrays (or scalars) when the op needs them.
All ops return labelled xarray objects so results can be compared by label.
"""
import numpy as np
import xarray as xr

from vt.symreal import stubs as ST


def _fcut(da, i, w):
    """a frequency between node i and node i+1 of the (sorted) frequency axis: valid cutoffs on every grid."""
    f = np.sort(np.asarray(da.freq.values, dtype=float))
    if len(f) < 2:
        return float(f[0])
    i = i % (len(f) - 1) if i >= 0 else len(f) + i
    i = min(max(i, 0), len(f) - 2)
    return float(f[i] + w * (f[i + 1] - f[i]))


def _peak():
    return ST.peak_stubs()


def _interp():
    return [ST.interp_contract, ST.chunk_identity]


OPS = {
    # --- integrated statistics
    "hs": dict(fn=lambda da, a: da.spec.hs()),
    "hrms": dict(fn=lambda da, a: da.spec.hrms()),
    "oned": dict(fn=lambda da, a: da.spec.oned()),
    "to_energy": dict(fn=lambda da, a: da.spec.to_energy()),
    "momf1": dict(fn=lambda da, a: da.spec.momf(1)),
    "momd1": dict(fn=lambda da, a: xr.Dataset(dict(zip(("msin", "mcos"), da.spec.momd(1))))),
    "tm01": dict(fn=lambda da, a: da.spec.tm01()),
    "tm02": dict(fn=lambda da, a: da.spec.tm02(), sqrt=True),
    "dm": dict(fn=lambda da, a: da.spec.dm(), atan=True),
    "dspr": dict(fn=lambda da, a: da.spec.dspr(), sqrt=True),
    "goda": dict(fn=lambda da, a: da.spec.goda()),
    "swe": dict(fn=lambda da, a: da.spec.swe(), sqrt=True),
    "uss": dict(fn=lambda da, a: da.spec.uss()),
    "uss_x": dict(fn=lambda da, a: da.spec.uss_x()),
    "mss": dict(fn=lambda da, a: da.spec.mss(depth=25.0)),
    "crsd": dict(fn=lambda da, a: da.spec.crsd()),
    "stats": dict(fn=lambda da, a: da.spec.stats(["hs", "tm01"])),
    # --- peak statistics (composition stubs)
    "tp": dict(fn=lambda da, a: da.spec.tp(), stubs=_peak, peak=True),
    "tp_raw": dict(fn=lambda da, a: da.spec.tp(smooth=False), stubs=_peak, peak=True),
    "dp": dict(fn=lambda da, a: da.spec.dp(), stubs=_peak, peak=True),
    "dpm": dict(fn=lambda da, a: da.spec.dpm(), stubs=_peak, peak=True, atan=True),
    "gamma": dict(fn=lambda da, a: da.spec.gamma(), stubs=_peak, peak=True),
    # --- transforms
    "smooth": dict(fn=lambda da, a: da.spec.smooth(3, 3)),
    "smooth13": dict(fn=lambda da, a: da.spec.smooth(1, 3)),
    "interp": dict(fn=lambda da, a: da.spec.interp(freq=np.array([0.07, 0.1, 0.3]), dir=np.array([10.0, 100.0, 350.0])), stubs=_interp),
    "rotate": dict(fn=lambda da, a: da.spec.rotate(45.0), stubs=_interp),
    "rotate_bin": dict(fn=lambda da, a: da.spec.rotate(float(np.min(np.diff(np.sort(np.asarray(da.dir.values, dtype=float) % 360.0))))), stubs=_interp),   # by one whole bin
    "split": dict(fn=lambda da, a: da.spec.split(fmin=_fcut(da, 0, 0.5), fmax=_fcut(da, -2, 0.55)), stubs=lambda: [ST.chunk_identity]),   # off-node cutoffs inside the grid
    "split_dir": dict(fn=lambda da, a: da.spec.split(dmin=40.0, dmax=200.0), stubs=lambda: [ST.chunk_identity]),
    # --- rule based partitions
    "ptm4": dict(fn=lambda da, a: da.spec.partition.ptm4(a["wspd"], a["wdir"], a["dpt"], agefac=1.7), wind=True),
    "ptm5": dict(fn=lambda da, a: da.spec.partition.ptm5(0.15), stubs=_interp),
    "bbox": dict(fn=lambda da, a: da.spec.partition.bbox([dict(fmin=_fcut(da, 0, 0.4), fmax=_fcut(da, -2, 0.25), dmin=50.0, dmax=200.0), dict(fmin=_fcut(da, -2, 0.5), dmin=190.0)])),
}

CHEAP = ["hs", "oned", "momf1", "momd1", "tm01", "goda", "uss_x", "mss", "crsd", "stats", "to_energy"]
ROOTS = ["tm02", "dspr", "swe", "dm"]
PEAKS = ["tp", "tp_raw", "dp", "dpm"]
PEAKS_SLOW = ["gamma"]
TRANSFORMS = ["smooth", "smooth13", "interp", "rotate", "rotate_bin", "split", "split_dir"]
PARTS = ["ptm4", "ptm5", "bbox"]


def run(env, name, da, aux=None):
    op = OPS[name]
    st = op.get("stubs")
    with env.stubs(*(st() if st else [])):
        return op["fn"](da, aux or {})


def as_dataset(x, name="out"):
    """Normalise an op result to a Dataset of DataArrays."""
    if isinstance(x, xr.Dataset):
        return x
    if isinstance(x, tuple):
        return xr.Dataset({"%s%d" % (name, i): v.rename(None) for i, v in enumerate(x)})
    return xr.Dataset({name: x.rename(None)})
