"""C18 Results reflect the object's current contents, not earlier calls (Engine S histories + CrossHair)."""
import itertools
import os
import subprocess
import sys
import time

import numpy as np
import xarray as xr
import z3

from vt.harness import HarnessInstance, REGISTRY, grid, harness
from vt.props.common import AND, isnan, mk_spec, total
from vt.refs import grids
from vt.symreal import stubs as ST
from vt.symreal import sym as S

P = "C18"

META = dict(
    level="model_checking",
    encoded=["SpecDataset.__init__/_wrapper/__getattr__", "SpecArray.dd/df and every observed statistic", "attributes.AttrDict / set_spec_attributes", "xarray accessor caching (one accessor instance per object)"],
    encoded_files=["wavespectra/specdataset.py", "wavespectra/specarray.py", "wavespectra/core/attributes.py", "wavespectra/core/select.py", "wavespectra/partition/specpart/specpart.c"],
    bounds="all histories of length <= 2 (quick) / <= 3 (thorough) over the alphabet {accessor calls, replace efth by independent symbolic data, relabel dir with the same spacing, relabel dir with another spacing, relabel freq with other bin widths (in the histories that pair it with one other step), unknown-statistic call, reader helper on another dataset, transform call}, on a DataArray and on a Dataset (grid 3x4 directions); after each history every observed operation must equal the same operation on a freshly built object with the same final contents; AttrDict by CrossHair on short string keys; the watershed's static buffers by consecutive calls with different shapes (engine L, the harness of C04)",
    outside="histories longer than the bound; peak statistics and site selection only after the short histories of `peak_history` / `sel_history` (call, edit, call); IEEE rounding; other processes",
    assumptions=["spectrum bins are finite reals >= 0"],
)

F = np.array([0.05, 0.1, 0.2])
D = np.array([0.0, 90.0, 180.0, 270.0])
D_SHIFT = np.array([45.0, 135.0, 225.0, 315.0])     # same spacing
D_HALF = np.array([0.0, 45.0, 90.0, 135.0])          # another spacing
OBS = ["hs", "dm", "dspr", "tm01", "oned", "momd", "smooth", "attrs", "tableattrs"]
F_OTHER = np.array([0.06, 0.1, 0.15])              # another frequency axis of the same length (other bin widths)
STEPS = ["A", "E", "D", "H", "U", "R", "T"]
# histories with an in-place relabelling of the FREQUENCY axis ("Q", added after seed C01-m5: bin widths memoised on
# the accessor): Q alone, Q before/after every other step, QQ
Q_HISTS = ["Q", "QQ"] + [a + "Q" for a in STEPS] + ["Q" + a for a in STEPS]


def _fresh(obj):
    """A freshly constructed object with the same contents (values, coordinates, names)."""
    if isinstance(obj, xr.Dataset):
        return xr.Dataset({k: (v.dims, np.array(v.values, dtype=v.dtype, copy=True)) for k, v in obj.data_vars.items()}, coords={k: (v.dims, np.array(v.values, copy=True)) for k, v in obj.coords.items()})
    return xr.DataArray(np.array(obj.values, dtype=obj.dtype, copy=True), dims=obj.dims, coords={k: (v.dims, np.array(v.values, copy=True)) for k, v in obj.coords.items()}, name=obj.name)


def _observe(env, obj, what):
    sp = obj.spec
    if what == "momd":
        a, b = sp.momd(1)
        return [a.values, b.values], None
    if what == "attrs":
        r = sp.hs()
        return [], (r.name, dict(r.attrs))
    if what == "tableattrs":
        # a dataset that happens to hold a variable named like a statistic without an entry in attributes.yml
        from wavespectra.core.utils import smooth_spec
        cur = obj.efth if isinstance(obj, xr.Dataset) else obj
        ds2 = xr.Dataset({"efth": cur, "crsd": (("freq",), np.ones(cur.sizes["freq"]), {"note": "caller"})})
        r = smooth_spec(ds2, 1, 1)
        return [], ("crsd", dict(r["crsd"].attrs))
    r = getattr(sp, what)(3, 1) if what == "smooth" else getattr(sp, what)()
    return [np.asarray(r.values)], (r.name if what != "smooth" else None)


def _step(env, obj, step, n, kind):
    """Apply one history step; returns the (possibly same) object."""
    if step == "A":
        obj.spec.hs(); obj.spec.dm(); obj.spec.momd(1); obj.spec.dspr(); obj.spec.oned()
    elif step == "T":
        obj.spec.smooth(3, 3)
    elif step == "E":
        new = env.array("E%d" % n, (len(F), len(D)), lo=0.0)
        if kind == "ds":
            obj["efth"] = (("freq", "dir"), new)
        else:
            obj.values[...] = new      # in-place edit of the array's contents
    elif step == "D":
        obj["dir"] = D_SHIFT if float(obj["dir"].values[0]) == 0.0 else D
    elif step == "Q":
        obj["freq"] = F_OTHER if float(obj["freq"].values[0]) == float(F[0]) else F
    elif step == "H":
        obj["dir"] = D_HALF if float(obj["dir"].values[1]) == 90.0 or float(obj["dir"].values[1]) == 135.0 else D
    elif step == "U":
        try:
            obj.spec.stats(["no_such_statistic"])
            env.claim(False, "an unknown statistic name is rejected with ValueError")
        except ValueError:
            pass
        obj.spec._standard_name("no_such_variable") if kind == "da" else obj.efth.spec._units("no_such_variable")
        obj.spec.crsd()   # a public statistic without an entry in the attribute table
    elif step == "R":
        from vt.refs import native
        from wavespectra.input.ww3 import from_ww3
        other, _ = native.ww3(_Plain(), nt=1, ns=1)
        from_ww3(other).spec.hs()
    return obj


class _Plain:
    """concrete stand-in for env when building an unrelated native dataset."""
    sym = False

    def array(self, name, shape, lo=0.0, hi=None, **kw):
        return np.random.default_rng(1).random(shape)


def _reset_table():
    """every history starts from the state of a fresh process: reload the global attribute table from its file."""
    import os
    import yaml
    from wavespectra.core import attributes as A
    with open(os.path.join(A.HERE, "attributes.yml")) as stream:
        pristine = A.AttrDict(yaml.load(stream, yaml.SafeLoader))
    dict.clear(A.attrs)
    for k in pristine:
        dict.__setitem__(A.attrs, k, pristine[k])


def _histories(maxlen):
    out = []
    for n in range(1, maxlen + 1):
        out += ["".join(p) for p in itertools.product(STEPS, repeat=n)]
    return out


@harness(P, quick=[dict(kind=k, hist=h) for k in ("da", "ds") for h in _histories(2) + Q_HISTS],
         thorough=[dict(kind=k, hist=h) for k in ("da", "ds") for h in [x for x in _histories(3) if len(x) == 3 and ("E" in x or "D" in x or "H" in x or "U" in x)] + ["AQE", "AQA", "QAQ", "AQD", "TQA", "AEQ", "QEA"]], max_paths=500, obl_timeout=8000, witnesses=2)
def history(env, kind, hist):
    """after the history, every observed operation equals the one on a fresh object with the same contents."""
    _reset_table()
    vals = env.array("E0", (len(F), len(D)), lo=0.0)
    env.assume(total(vals) > 0)
    da = xr.DataArray(vals, dims=("freq", "dir"), coords={"freq": F, "dir": D}, name="efth")
    obj = da.to_dataset() if kind == "ds" else da
    obj.spec  # create the accessor before anything else (it is cached per object)
    # process-wide state (attribute table): what a data-independent observation gives BEFORE the history
    _, table_before = _observe(env, _fresh(obj), "tableattrs")
    for n, st in enumerate(hist):
        obj = _step(env, obj, st, n + 1, kind)
        cur = obj.efth if kind == "ds" else obj
        env.assume(total(np.asarray(cur.values)) > 0)
    fresh = _fresh(obj)
    _, table_after = _observe(env, fresh, "tableattrs")
    env.claim(table_before == table_after, "attributes given to a like-named variable do not depend on operations that ran earlier in the process (%s)" % hist, {"before": str(table_before), "after": str(table_after)})
    for what in OBS:
        with env.lazy_sqrt():
            got, meta1 = _observe(env, obj, what)
            want, meta2 = _observe(env, fresh, what)
        env.claim(meta1 == meta2, "%s after %s: same name/attributes as on a fresh object" % (what, hist), {"laden": str(meta1)[:200], "fresh": str(meta2)[:200]})
        for a, b in zip(got, want):
            env.close(_res(env, a), _res(env, b), "%s after history %s == %s on a fresh object with the same contents" % (what, hist, what), rel=1e-12, abs_=0.0, ctol=1e-9, catol=1e-12)
    if kind == "ds":
        for what in ("hs", "dm", "tm01"):
            with env.lazy_sqrt():
                a, _ = _observe(env, obj, what)
                b, _ = _observe(env, obj.efth, what)
            for x, y in zip(a, b):
                env.close(_res(env, x), _res(env, y), "Dataset accessor agrees with the accessor of its efth variable after %s (%s)" % (hist, what), rel=1e-12, abs_=0.0, ctol=1e-9, catol=1e-12)


PEAK_OBS = ["tp", "tp_raw", "dp", "dpm"]


@harness(P, quick=[dict(kind=k, hist=h) for k in ("da", "ds") for h in ("PE", "PD", "PEP")], thorough=[dict(kind=k, hist=h) for k in ("da", "ds") for h in ("PE", "PD", "PH", "PEP", "PEE", "PDE", "APE")],
         max_paths=400, obl_timeout=8000, witnesses=2, time_budget=240, hard_timeout=600)
def peak_history(env, kind, hist):
    """the peak statistics (tp, smoothed and raw, dp, dpm) after a history that called them before the contents or
    the direction labels were replaced equal the ones of a fresh object with the final contents. Step P = call the
    peak statistics (so that anything memoised on the accessor is filled), the other steps as in `history`."""
    from vt.props import ops
    _reset_table()
    # the contents before the history are fixed numbers (what is memoised from them does not matter, only that it is):
    # the paths then fork on the peaks of the FINAL contents only
    e0 = np.array([[0.1, 0.4, 0.2, 0.1], [0.3, 2.0, 0.7, 0.2], [0.2, 0.6, 0.3, 0.1]])
    vals = np.array(e0, dtype=object if env.sym else float)
    if env.sym:
        for i_, v_ in np.ndenumerate(e0):
            vals[i_] = S.CF(v_)
    da = xr.DataArray(vals, dims=("freq", "dir"), coords={"freq": F, "dir": D}, name="efth")
    obj = da.to_dataset() if kind == "ds" else da
    obj.spec
    for n, st in enumerate(hist):
        if st == "P":
            for what in PEAK_OBS:
                ops.run(env, what, obj)
        else:
            obj = _step(env, obj, st, n + 1, kind)
        cur = obj.efth if kind == "ds" else obj
        env.assume(total(np.asarray(cur.values)) > 0)
    fresh = _fresh(obj)
    for what in PEAK_OBS:
        with env.lazy_sqrt():
            got = ops.run(env, what, obj)
            want = ops.run(env, what, fresh)
        a, b = env.resolve(np.asarray(got.values, dtype=object).ravel()[0]), env.resolve(np.asarray(want.values, dtype=object).ravel()[0])
        if isnan(a) or isnan(b):
            env.claim(isnan(a) and isnan(b), "%s after history %s is missing exactly when it is on a fresh object" % (what, hist))
        else:
            env.close(a, b, "%s after history %s == %s on a fresh object with the same contents" % (what, hist, what), rel=1e-12, abs_=0.0, ctol=1e-9, catol=1e-12)


SEL_TAGS = [1.0, 10.0, 100.0]


@harness(P, quick=[dict(edit=e, method=m) for e in ("lon", "lat", "both") for m in ("nearest", "bbox")][:4] + [dict(edit="lon", method="idw")], thorough=grid(edit=["lon", "lat", "both"], method=["nearest", "bbox", "idw"]),
         max_paths=600, obl_timeout=8000, witnesses=2, time_budget=240, hard_timeout=600)
def sel_history(env, edit, method):
    """site selection on a Dataset whose station coordinates were replaced in place AFTER an earlier selection gives
    what the same selection gives on a fresh Dataset with the final coordinates (two stations, fixed positions
    before and symbolic positions after the edit)."""
    from wavespectra.core import select as SEL
    ns = 2
    lon0, lat0 = [70.0, 100.0], [0.0, 10.0]      # fixed positions for the first selection; the edit is symbolic
    lon1 = [env.real("lon1_%d" % k, lo=0.0, hi=170.0) for k in range(ns)] if edit in ("lon", "both") else lon0
    lat1 = [env.real("lat1_%d" % k, lo=-60.0, hi=60.0) for k in range(ns)] if edit in ("lat", "both") else lat0
    if env.sym:
        lon0, lat0 = [S.CF(x) for x in lon0], [S.CF(x) for x in lat0]
        lon1 = [x if isinstance(x, S.Sym) else S.CF(x) for x in lon1]
        lat1 = [x if isinstance(x, S.Sym) else S.CF(x) for x in lat1]
    dt = object if env.sym else float
    efth = np.zeros((ns, 2, 2))
    for k in range(ns):
        efth[k] = SEL_TAGS[k]

    def build(lons, lats):
        return xr.Dataset({"efth": (("site", "freq", "dir"), efth.copy()), "lon": (("site",), np.array(lons, dtype=dt)), "lat": (("site",), np.array(lats, dtype=dt))},
                          coords={"site": np.arange(ns), "freq": [0.1, 0.2], "dir": [0.0, 180.0]})

    def select(ds):
        with env.lazy_sqrt(), env.stubs(lambda: ST.float_identity(SEL)):
            if method == "bbox":
                return ds.spec.sel([40.0, 120.0], [-20.0, 30.0], method="bbox", tolerance=1.0)
            return ds.spec.sel([80.0], [5.0], method=method, tolerance=500.0)

    ds = build(lon0, lat0)
    ds.spec
    try:
        select(ds)
    except (ValueError, AssertionError):
        pass
    if edit in ("lon", "both"):
        ds["lon"] = (("site",), np.array(lon1, dtype=dt))
    if edit in ("lat", "both"):
        ds["lat"] = (("site",), np.array(lat1, dtype=dt))
    fresh = build(lon1, lat1)
    res = []
    for d_ in (ds, fresh):
        try:
            o = select(d_)
            res.append(("ok", o))
        except (ValueError, AssertionError) as e:
            res.append((type(e).__name__, None))
    env.claim(res[0][0] == res[1][0], "selection after an in-place edit of the station coordinates succeeds/fails as on a fresh dataset", {"laden": res[0][0], "fresh": res[1][0]})
    if res[0][1] is None or res[1][1] is None:
        return
    a, b = res[0][1], res[1][1]
    env.claim(a.efth.shape == b.efth.shape, "same number of stations selected after the edit as on a fresh dataset", {"laden": a.efth.shape, "fresh": b.efth.shape})
    if a.efth.shape != b.efth.shape:
        return
    env.close(_res(env, a.efth.values), _res(env, b.efth.values), "selected spectra after an in-place edit of the station coordinates == selection on a fresh dataset", rel=1e-9, abs_=0.0, ctol=1e-9, catol=1e-12)
    for c in ("lon", "lat"):
        env.close(_res(env, a[c].values), _res(env, b[c].values), "reported %s after an in-place edit == on a fresh dataset" % c, rel=0.0, abs_=1e-9, ctol=0.0, catol=1e-9)


def _res(env, a):
    a = np.asarray(a, dtype=object)
    out = np.empty(a.shape, dtype=object)
    for i, v in np.ndenumerate(a):
        out[i] = env.resolve(v)
    return out


# ---------------------------------------------------------------------------------------
# CrossHair: AttrDict lookups must not change membership
# ---------------------------------------------------------------------------------------
XH = '''
from typing import List
from wavespectra.core.attributes import AttrDict


def lookup_does_not_insert(keys: List[str], probe: str) -> bool:
    """
    pre: len(keys) <= 2 and len(probe) <= 2 and all(len(k) <= 2 for k in keys)
    post: __return__
    """
    d = AttrDict({k: 1 for k in keys})
    before = sorted(d.keys())
    try:
        d[probe]
    except KeyError:
        pass
    try:
        getattr(d, probe)
    except (AttributeError, KeyError):
        pass
    return sorted(d.keys()) == before


def reach(keys: List[str], probe: str) -> bool:
    """
    pre: len(keys) <= 2 and len(probe) <= 2 and all(len(k) <= 2 for k in keys)
    post: not __return__
    """
    d = AttrDict({k: 1 for k in keys})
    return True
'''


def _crosshair(tier="quick"):
    import tempfile
    import shutil
    from vt import repo
    t0 = time.time()
    res = {"paths": 0, "decisions": 0, "obligations": 0, "discharged": 0, "trivial": 0, "queries": 0, "solver_time": 0.0, "witness_validated": 0, "inconclusive": [], "spurious": [],
           "violations": [], "engine_errors": [], "samples": [], "stubs": [], "labels": [], "nontrivial_paths": 0, "budget": None}
    d = tempfile.mkdtemp(prefix="vt-xh-", dir=os.environ.get("VT_SCRATCH") or None)
    try:
        path = os.path.join(d, "attrdict_contract.py")
        open(path, "w").write(XH)
        env = dict(os.environ, PYTHONPATH=repo.ROOT + os.pathsep + os.environ.get("PYTHONPATH", ""))
        T = 40 if tier == "quick" else 150
        p = subprocess.run([sys.executable, "-m", "crosshair", "check", "--report_all", "--per_condition_timeout", str(T), path], capture_output=True, text=True, env=env, timeout=T * 4 + 60)
        out = p.stdout + p.stderr
        res["samples"].append({"crosshair_output": out[-800:]})
        lines = [l for l in out.splitlines() if "attrdict_contract.py" in l]
        lk = [l for l in lines if ":7:" in l or "lookup_does_not_insert" in l]
        rc = [l for l in lines if ":28:" in l or "reach" in l]
        res["paths"] = 2
        res["nontrivial_paths"] = 2
        res["obligations"] = 2
        res["labels"] = ["AttrDict lookup does not change membership", "reachability twin (post: False must be refuted)"]
        res["queries"] = 2
        res["solver_time"] = time.time() - t0
        # reachability twin: must report a counterexample ("false when calling reach")
        if any("false when calling reach" in l for l in lines):
            res["discharged"] += 1
        else:
            res["inconclusive"].append({"label": "reachability twin", "why": "CrossHair did not refute post: False (%s)" % (rc[:1],)})
        bad = [l for l in lines if "false when calling lookup_does_not_insert" in l]
        conf = [l for l in lines if "Confirmed over all paths" in l and ":10" in l or ("lookup" in l and "Confirmed" in l)]
        if bad:
            # replay the counterexample on the real class
            import re
            from wavespectra.core.attributes import AttrDict
            m = re.search(r"lookup_does_not_insert\((.*?)\)\s*(?:\(which|$)", bad[0])
            reproduced = False
            call = m.group(1) if m else ""
            try:
                keys, probe = eval("(" + call + ")", {}) if call else ([], "x")
                dd = AttrDict({k: 1 for k in keys})
                before = sorted(dd.keys())
                try:
                    dd[probe]
                except KeyError:
                    pass
                reproduced = sorted(dd.keys()) != before
            except Exception:
                pass
            entry = {"kind": "cex", "label": "AttrDict lookup does not change membership", "inputs": {"call": call}, "replay": {"status": "failed" if reproduced else "ok"}, "trace": ""}
            (res["violations"] if reproduced else res["spurious"]).append(entry)
        elif any("Confirmed over all paths" in l for l in lines if "lookup" in l or ":6" in l or ":7" in l or ":10" in l):
            res["discharged"] += 1
        else:
            confirmed = [l for l in out.splitlines() if "Confirmed over all paths" in l]
            if confirmed:
                res["discharged"] += 1
            else:
                res["inconclusive"].append({"label": "AttrDict lookup does not change membership", "why": "CrossHair: not confirmed / no verdict: " + out[-300:]})
    finally:
        shutil.rmtree(d, ignore_errors=True)
    res["wall_s"] = time.time() - t0
    return res


def _replay_xh(d):
    from wavespectra.core.attributes import AttrDict
    keys, probe = eval("(" + d["inputs"]["call"] + ")", {})
    dd = AttrDict({k: 1 for k in keys})
    before = sorted(dd.keys())
    try:
        dd[probe]
    except KeyError:
        pass
    return {"status": "failed" if sorted(dd.keys()) != before else "ok"}


REGISTRY.setdefault(P, []).append(HarnessInstance(P, _crosshair, {}, ("quick", "thorough"), {"custom": True, "replay": _replay_xh}))

# static work buffers of the C extension: a partition call after a call on another shape must equal the call from
# a fresh state (the Engine-L harness of C04, run here as part of this property's own check)
from vt.props import c04 as _c04  # noqa: E402

for (a_, b_) in (((2, 3), (3, 2)), ((1, 4), (2, 2)), ((2, 2), (1, 4)), ((3, 2), (1, 6)), ((2, 2), (2, 3)), ((2, 3), (2, 2))):
    REGISTRY.setdefault(P, []).append(HarnessInstance(P, _c04.consecutive_calls, dict(first=a_, second=b_, ihmax=2), ("quick", "thorough"), dict(max_paths=20000, time_budget=240, hard_timeout=500)))
for (a_, m_, b_) in (((1, 4), (4, 1), (2, 3)), ((1, 3), (3, 1), (3, 3))):
    REGISTRY.setdefault(P, []).append(HarnessInstance(P, _c04.consecutive_calls, dict(first=a_, mid=m_, second=b_, ihmax=2), ("quick", "thorough"), dict(max_paths=20000, time_budget=240, hard_timeout=500)))
