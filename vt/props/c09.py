"""C09 Threshold, wave-age and box splits assign every bin by the stated rule (Engine S)."""
import math

import numpy as np
import xarray as xr
import z3

from vt.harness import grid, harness
from vt.props.common import AND, IMPLIES, NOT, OR, isnan, item, mk_spec, near, rows, total
from vt.refs import integrals as I
from vt.symreal import stubs as ST
from vt.symreal import sym as S
from vt.symreal.sym import Sym

P = "C09"

META = dict(
    level="model_checking",
    encoded=["Partition.ptm4/ptm5/bbox", "utils.waveage/celerity/wavenuma/is_overlap", "SpecArray.split/_interp_freq/stats(fmin,fmax,dmin,dmax)"],
    encoded_files=["wavespectra/partition/partition.py", "wavespectra/core/utils.py", "wavespectra/specarray.py"],
    bounds="grids G1,G2,G3,U4 (<= 4x4 bins, sorted and unsorted storage); PTM4: wind speed symbolic >= 0 (per site), wind direction / depth / age factor from fixed sets including winds exactly along a grid direction; bbox: all four limits of 1-2 boxes symbolic, omitted limits; split/PTM5: cutoffs from a fixed set of on-node and off-node values in every grid interval; data: arbitrary reals >= 0",
    outside="IEEE rounding; cutoffs other than the listed ones (the interpolation is linear in the cutoff, checked at listed values only); symbolic depth; interp inside regrid_spec is the 1-D linear contract stub",
    assumptions=["spectrum bins are finite reals >= 0", "stubs: interp contract (PTM5), chunk identity (split rechunk)"],
)


def _wind_da(x, lead, like=None):
    """wind / depth along the leading dimension, on the spectrum's own coordinate of that dimension."""
    if not lead:
        return x
    coords = {n: (like[n].values if like is not None and n in like.coords else np.arange(k)) for n, k in lead}
    return xr.DataArray(np.array(x, dtype=object if any(isinstance(v, Sym) for v in x) else float), dims=[n for n, _ in lead], coords=coords)


@harness(P, quick=grid(g=["G1", "G2"], wdir=[0.0, 47.0], dpt=[15.0], agefac=[1.7, 1.0], lead=[()]) + grid(g=["G2"], wdir=[125.0], dpt=[40.0], agefac=[1.0, 2.0], lead=[()]) + grid(g=["G3"], wdir=[180.0], dpt=[300.0], agefac=[2.0], lead=[(("site", 2),)]),
         thorough=grid(g=["U4", "G1"], wdir=[90.0, 333.0], dpt=[4.0, 1000.0], agefac=[1.7, 2.0], lead=[()]) + grid(g=["G2"], wdir=[125.0], dpt=[25.0], agefac=[1.0], lead=[(("time", 2),)]), max_paths=3000)
def ptm4(env, g, wdir, dpt, agefac, lead):
    """bin in the wind sea  <=>  celerity(f, depth) <= agefac * wspd * cos(dir - wdir); disjoint; sums to the input."""
    from wavespectra.core import utils
    da, vals = mk_spec(env, g, lead=lead)
    f, d = da.freq.values, da.dir.values
    n = lead[0][1] if lead else 1
    ws = [env.real("wspd_%d" % p, lo=0.0, hi=60.0) for p in range(n)]
    wspd = _wind_da(ws, lead, da) if lead else ws[0]
    wd = _wind_da([wdir] * n, lead, da) if lead else wdir
    dp = _wind_da([dpt] * n, lead, da) if lead else dpt
    out = da.spec.partition.ptm4(wspd, wd, dp, agefac=agefac)
    env.claim(out.sizes["part"] == 2, "two partitions (wind sea, swell)")
    out = out.transpose("part", *da.dims)
    # independent celerity: Chen-Thomson wavenumber
    cel = []
    for fi in f:
        k0h, a = I.chen_thomson([fi], dpt)[0]
        k = math.sqrt(k0h * k0h * (1 + 1 / (k0h * a))) / dpt
        cel.append(2 * math.pi * fi / k)
    cel_impl = np.asarray(utils.celerity(f, dpt), dtype=float)  # the library's own celerity (checked against Chen-Thomson in C01)
    env.claim(np.allclose(cel_impl, cel, rtol=1e-9, atol=0), "library celerity equals the Chen-Thomson form", {"impl": cel_impl.tolist(), "ref": cel})
    fs, ds = np.sort(f), np.sort(d)  # output is sorted by freq and dir
    env.claim(np.array_equal(out.freq.values, fs) and np.array_equal(out.dir.values, ds), "output coordinates are the sorted input coordinates")
    for p in range(n):
        o = out.values[(slice(None), p)] if lead else out.values
        v = vals[p] if lead else vals
        conds = []
        for io, fi in enumerate(fs):
            i = int(np.where(f == fi)[0][0])
            for jo, dj in enumerate(ds):
                j = int(np.where(d == dj)[0][0])
                e = v[i, j]
                sea_ok = AND(o[0][io, jo] == e, o[1][io, jo] == 0)
                swell_ok = AND(o[0][io, jo] == 0, o[1][io, jo] == e)
                if dj == wdir:
                    # wind exactly along this direction: cos = 1 in any implementation -> the boundary is exact
                    insea = float(cel_impl[i]) <= agefac * ws[p]
                    conds.append(OR(AND(insea, sea_ok), AND(NOT(insea), swell_ok)))
                else:
                    # elsewhere the cosine is a rounded constant: a band of 1e-12 around the boundary may go either way
                    rhs = agefac * ws[p] * math.cos(math.radians(dj - wdir))
                    c = float(cel_impl[i])
                    conds.append(OR(AND(c <= rhs + 1e-12 * c, sea_ok), AND(c >= rhs - 1e-12 * c, swell_ok)))
        env.claim(AND(*conds), "every bin goes to the wind sea iff celerity <= agefac*wspd*cos(dir-wdir), to the swell otherwise")


FC = {"G1": [0.05, 0.075, 0.1, 0.1300001, 0.2, 0.31, 0.4], "G2": [0.06, 0.1, 0.11, 0.12, 0.2999], "G3": [0.15, 0.2, 0.3]}


@harness(P, quick=[dict(g="G1", fmin=a, fmax=b) for a, b in [(None, 0.2), (0.1, None), (0.075, 0.31), (0.1, 0.2), (0.0500000001, 0.3999)]] + [dict(g="G2", fmin=0.1, fmax=0.12), dict(g="G2", fmin=None, fmax=0.2999)],
         thorough=[dict(g="G1", fmin=a, fmax=b) for a in (None, 0.05, 0.075, 0.1, 0.1300001) for b in (None, 0.2, 0.31, 0.4) if (a, b) != (None, None)] + [dict(g="G3", fmin=0.15, fmax=0.3)])
def split_freq(env, g, fmin, fmax):
    """band splitting keeps every bin inside unchanged, drops the rest, adds the linear interpolation at an off-node cutoff."""
    da, vals = mk_spec(env, g)
    f, d = da.freq.values, da.dir.values
    with env.stubs(ST.chunk_identity):
        out = da.spec.split(fmin=fmin, fmax=fmax)
    out = out.transpose("freq", "dir")
    lo = f.min() if fmin is None else fmin
    hi = f.max() if fmax is None else fmax
    keep = [i for i in range(len(f)) if lo <= f[i] <= hi]
    exp_f, exp_rows = [], []

    def interp(x):
        i = int(np.searchsorted(f, x))
        w = (x - f[i - 1]) / (f[i] - f[i - 1])
        return [vals[i - 1, j] * (1 - w) + vals[i, j] * w for j in range(len(d))]

    if fmin is not None and not any(abs(f[i] - fmin) <= 1e-10 for i in keep):
        exp_f.append(fmin)
        exp_rows.append(interp(fmin))
    for i in keep:
        exp_f.append(f[i])
        exp_rows.append(list(vals[i]))
    if fmax is not None and not any(abs(f[i] - fmax) <= 1e-10 for i in keep):
        exp_f.append(fmax)
        exp_rows.append(interp(fmax))
    env.claim(len(out.freq) == len(exp_f) and np.allclose(out.freq.values, exp_f, rtol=0, atol=1e-15), "frequencies: nodes inside the band plus the off-node cutoffs", {"got": out.freq.values.tolist(), "want": exp_f})
    env.claim(np.array_equal(out.dir.values, d), "directions untouched")
    if len(out.freq) == len(exp_f):
        env.close(out.values, exp_rows, "kept bins unchanged, cutoff rows linearly interpolated", rel=1e-12, abs_=0.0)
    # statistics with limits == statistics of the explicit split
    with env.stubs(ST.chunk_identity):
        st = da.spec.stats(["hs", "tm01"], fmin=fmin, fmax=fmax)
    hs_a, hs_b = item(st.hs), item(out.spec.hs())
    env.close(hs_a * hs_a, hs_b * hs_b, "stats(fmin,fmax).hs == hs of the explicit split", rel=1e-12)


@harness(P, quick=[dict(g="G1", dmin=90.0, dmax=180.0), dict(g="G1", dmin=None, dmax=100.0), dict(g="U4", dmin=110.0, dmax=None)]
         + [dict(g="G1", dmin=30.0, dmax=200.0, order=o) for o in ("descending", "rotated")] + [dict(g="G1", dmin=None, dmax=100.0, order="descending"), dict(g="G1", dmin=100.0, dmax=None, order="descending")],
         thorough=[dict(g="G2", dmin=5.0, dmax=125.0), dict(g="D6", dmin=60.0, dmax=250.0)] + [dict(g="D6", dmin=60.0, dmax=250.0, order=o) for o in ("descending", "rotated")])
def split_dir(env, g, dmin, dmax, order="ascending"):
    """split(dmin, dmax) keeps exactly the directions inside the band, in increasing order, whatever the order the
    direction axis is stored in (ascending, strictly descending, or rotated like the WW3 axis)."""
    da, vals = mk_spec(env, g)
    if order != "ascending":
        nd_ = da.sizes["dir"]
        idx = list(range(nd_))[::-1] if order == "descending" else [(j + 2) % nd_ for j in range(nd_)][::-1]
        da = da.isel(dir=idx)
        vals = vals[:, idx]
    f, d = da.freq.values, da.dir.values
    with env.stubs(ST.chunk_identity):
        out = da.spec.split(dmin=dmin, dmax=dmax).transpose("freq", "dir")
    lo = -np.inf if dmin is None else dmin
    hi = np.inf if dmax is None else dmax
    keep = [j for j in np.argsort(d) if lo <= d[j] <= hi]
    env.claim(np.array_equal(out.dir.values, d[keep]), "directions inside the band (sorted)", {"got": out.dir.values.tolist()})
    if len(out.dir) == len(keep):
        env.equal(out.values, vals[:, keep], "kept bins unchanged")


@harness(P, quick=grid(g=["G1", "G2"], nbox=[1]) + grid(g=["G3"], nbox=[2]), thorough=grid(g=["U4"], nbox=[1]) + grid(g=["F2", "G2"], nbox=[2]), max_paths=8000, max_paths_thorough=60000, time_budget_thorough=3000, hard_timeout_thorough=3300)
def bbox(env, g, nbox):
    """each box gets exactly the bins inside its closed limits, the remainder goes last; overlapping boxes raise ValueError."""
    da, vals = mk_spec(env, g)
    f, d = da.freq.values, da.dir.values
    boxes, lims = [], []
    for b in range(nbox):
        L = {k: env.real("%s_%d" % (k, b), lo=0.001, hi=(1.0 if k[0] == "f" else 359.0)) for k in ("fmin", "fmax", "dmin", "dmax")}
        env.assume(AND(L["fmin"] < L["fmax"], L["dmin"] < L["dmax"]))
        boxes.append(dict(L))
        lims.append(L)
    overlap = False
    if nbox == 2:
        a, b = lims
        overlap = AND(a["fmin"] < b["fmax"], b["fmin"] < a["fmax"], a["dmin"] < b["dmax"], b["dmin"] < a["dmax"])
    try:
        out = da.spec.partition.bbox(boxes)
    except ValueError:
        env.claim(overlap, "ValueError only for overlapping boxes")
        return
    env.claim(NOT(overlap), "overlapping boxes are rejected")
    env.claim(out.sizes["part"] == nbox + 1, "one partition per box plus the remainder")
    out = out.transpose("part", "freq", "dir")
    fs, ds = np.sort(f), np.sort(d)
    conds = []
    for io, fi in enumerate(fs):
        i = int(np.where(f == fi)[0][0])
        for jo, dj in enumerate(ds):
            j = int(np.where(d == dj)[0][0])
            e = vals[i, j]
            ins = [AND(L["fmin"] <= float(fi), float(fi) <= L["fmax"], L["dmin"] <= float(dj), float(dj) <= L["dmax"]) for L in lims]
            for b in range(nbox):
                conds.append(OR(AND(ins[b], out.values[b][io, jo] == e), AND(NOT(ins[b]), out.values[b][io, jo] == 0)))
            anyin = OR(*ins)
            conds.append(OR(AND(anyin, out.values[nbox][io, jo] == 0), AND(NOT(anyin), out.values[nbox][io, jo] == e)))
    env.claim(AND(*conds), "box membership by the closed limits, remainder last")


@harness(P, quick=grid(g=["G3"], sym=[0, 2]), thorough=grid(g=["G1"], sym=[0, 1, 2]), max_paths=8000, time_budget_thorough=1800)
def bbox3(env, g, sym):
    """three boxes, two fixed and disjoint, one symbolic (position `sym` in the list): EVERY overlapping pair must be rejected."""
    da, vals = mk_spec(env, g)
    f, d = da.freq.values, da.dir.values
    fixed = [dict(fmin=0.04, fmax=0.15, dmin=1.0, dmax=100.0), dict(fmin=0.18, fmax=0.5, dmin=170.0, dmax=280.0)]
    L = {k: env.real(k, lo=0.001, hi=(1.0 if k[0] == "f" else 359.0)) for k in ("fmin", "fmax", "dmin", "dmax")}
    env.assume(AND(L["fmin"] < L["fmax"], L["dmin"] < L["dmax"]))
    boxes = list(fixed)
    boxes.insert(sym, dict(L))
    lims = boxes

    def ov(a, b):
        return AND(a["fmin"] < b["fmax"], b["fmin"] < a["fmax"], a["dmin"] < b["dmax"], b["dmin"] < a["dmax"])

    overlap = OR(*[ov(lims[i], lims[j]) for i in range(3) for j in range(i + 1, 3)])
    try:
        out = da.spec.partition.bbox([dict(b) for b in boxes])
    except ValueError:
        env.claim(overlap, "ValueError only for overlapping boxes")
        return
    env.claim(NOT(overlap), "every overlapping pair of boxes is rejected (not only neighbours in the list)")
    out = out.transpose("part", "freq", "dir")
    env.claim(out.sizes["part"] == 4, "one partition per box plus the remainder")
    tot_parts = sum(out.values[k] for k in range(4))
    fs, ds = np.sort(f), np.sort(d)
    exp = np.empty((len(fs), len(ds)), dtype=object)
    for io, fi in enumerate(fs):
        for jo, dj in enumerate(ds):
            exp[io, jo] = vals[int(np.where(f == fi)[0][0]), int(np.where(d == dj)[0][0])]
    env.equal(tot_parts, exp, "non-overlapping boxes and the remainder sum exactly to the input")


@harness(P, quick=[dict(g="G2", omit="dmax"), dict(g="G2", omit="dmin"), dict(g="G1", omit="fmax"), dict(g="G1", omit="fmin")], thorough=[dict(g="U4", omit="dmax"), dict(g="G3", omit="fmin")])
def bbox_omitted(env, g, omit):
    """an omitted limit defaults to the grid extreme on that side."""
    da, vals = mk_spec(env, g)
    f, d = da.freq.values, da.dir.values
    full = {"fmin": float(f[1]) - 0.001, "fmax": float(f[-2]) + 0.001, "dmin": float(np.sort(d)[1]) - 1.0, "dmax": float(np.sort(d)[-2]) + 1.0}
    box = {k: v for k, v in full.items() if k != omit}
    out = da.spec.partition.bbox([box]).transpose("part", "freq", "dir")
    lim = dict(full)
    lim[omit] = {"fmin": f.min(), "fmax": f.max(), "dmin": d.min(), "dmax": d.max()}[omit]
    fs, ds = np.sort(f), np.sort(d)
    exp = np.zeros((len(fs), len(ds)), dtype=object)
    for io, fi in enumerate(fs):
        for jo, dj in enumerate(ds):
            i, j = int(np.where(f == fi)[0][0]), int(np.where(d == dj)[0][0])
            inside = lim["fmin"] <= fi <= lim["fmax"] and lim["dmin"] <= dj <= lim["dmax"]
            exp[io, jo] = vals[i, j] if inside else 0.0
    env.equal(out.values[0], exp, "omitted %s defaults to the grid extreme" % omit)


@harness(P, quick=[{}])
def overlap_rule(env):
    """is_overlap == open-interval intersection of the two rectangles."""
    from wavespectra.core import utils
    r1 = [env.real("a%d" % i, lo=-10.0, hi=10.0) for i in range(4)]
    r2 = [env.real("b%d" % i, lo=-10.0, hi=10.0) for i in range(4)]
    env.assume(AND(r1[0] < r1[2], r1[1] < r1[3], r2[0] < r2[2], r2[1] < r2[3]))
    got = utils.is_overlap(r1, r2)
    want = AND(r1[0] < r2[2], r2[0] < r1[2], r1[1] < r2[3], r2[1] < r1[3])
    env.claim(want if got else NOT(want), "is_overlap == open-interval intersection")


@harness(P, quick=[dict(g="G1", fcut=0.1), dict(g="G1", fcut=0.15), dict(g="G2", fcut=0.12)], thorough=[dict(g="G1", fcut=c) for c in (0.075, 0.2, 0.31)] + [dict(g="G3", fcut=0.3)])
def ptm5(env, g, fcut):
    """sea = 0 below the cutoff, swell = 0 above it; elsewhere input (with the interpolated cutoff row) times ONE factor."""
    da, vals = mk_spec(env, g)
    f, d = da.freq.values, da.dir.values
    env.assume(total(vals) > 0)
    with env.stubs(ST.interp_contract, ST.chunk_identity):
        out = da.spec.partition.ptm5(fcut)
    out = out.transpose("part", "freq", "dir")
    onnode = any(abs(x - fcut) == 0 for x in f)
    newf = list(f) if onnode else sorted(list(f) + [fcut])
    env.claim(len(out.freq) == len(newf) and np.allclose(out.freq.values, newf, rtol=0, atol=1e-15), "frequencies: input nodes plus the cutoff")
    if len(out.freq) != len(newf):
        return
    rows_new = []
    for x in newf:
        if x in list(f):
            rows_new.append(list(vals[list(f).index(x)]))
        else:
            i = int(np.searchsorted(f, x))
            w = (x - f[i - 1]) / (f[i] - f[i - 1])
            rows_new.append([vals[i - 1, j] + w * (vals[i, j] - vals[i - 1, j]) for j in range(len(d))])
    h_in = I.hs2(rows(vals), f, d)
    h_new = I.hs2(rows_new, np.array(newf), d)
    conds = []
    for i, x in enumerate(newf):
        for j in range(len(d)):
            sea, swell = out.values[0][i, j], out.values[1][i, j]
            ref = rows_new[i][j]
            # out * h_new == ref * h_in  (one common variance-preserving factor; 1 when the cutoff is a node)
            if x >= fcut:
                conds.append(near(env, sea * h_new, ref * h_in, rel=1e-9, abs_=0.0))
            else:
                conds.append(sea == 0)
            if x <= fcut:
                conds.append(near(env, swell * h_new, ref * h_in, rel=1e-9, abs_=0.0))
            else:
                conds.append(swell == 0)
    env.claim(AND(*conds), "PTM5: zero strictly beyond the cutoff, input times one common factor elsewhere")
