"""Helpers shared by the property modules."""
import math

import numpy as np
import xarray as xr

from vt.refs import grids
from vt.symreal.sym import CF, Sym, SymBool

R2D = 180.0 / math.pi
D2R = math.pi / 180.0


def mk_spec(env, grid, name="E", lead=(), lo=0.0, hi=None, dims_order=None, freq=None, dirs=None):
    """DataArray 'efth' on a concrete grid with symbolic (or replayed) data.

    lead: tuple of (dimname, size) leading dims. Returns (da, vals) where vals is the
    underlying ndarray with dims lead+(freq,dir) (object dtype in sym mode)."""
    f, d = grids.get(grid) if isinstance(grid, str) else grid
    if freq is not None:
        f = np.asarray(freq, dtype=float)
    if dirs is not None:
        d = np.asarray(dirs, dtype=float)
    shape = tuple(n for _, n in lead) + (len(f),) + ((len(d),) if d is not None else ())
    vals = env.array(name, shape, lo=lo, hi=hi)
    dims = tuple(n for n, _ in lead) + ("freq",) + (("dir",) if d is not None else ())
    coords = {"freq": f}
    if d is not None:
        coords["dir"] = d
    for n, k in lead:
        if n == "time":
            coords[n] = np.array("2020-01-01T00", dtype="datetime64[ns]") + np.arange(k) * np.timedelta64(3, "h")
        else:
            coords[n] = np.arange(k)
    da = xr.DataArray(vals, dims=dims, coords=coords, name="efth")
    if dims_order:
        da = da.transpose(*dims_order)
    return da, vals


def rows(vals2d):
    """2-D ndarray -> list of lists of elements (for the reference integrals)."""
    return [list(r) for r in vals2d]


def total(vals):
    t = 0
    for v in np.asarray(vals, dtype=object).ravel():
        t = t + v
    return t


def item(x):
    """Scalar element out of a 0-d DataArray / ndarray / scalar."""
    if hasattr(x, "values"):
        x = x.values
    if isinstance(x, np.ndarray):
        x = x.item() if x.ndim == 0 or x.size == 1 else x
    return x


def isnan(x):
    return isinstance(x, (float, np.floating)) and math.isnan(x)


def angdiff(a, b):
    """Smallest absolute difference between two angles in degrees (floats)."""
    d = abs((float(a) - float(b)) % 360.0)
    return min(d, 360.0 - d)


def positions(lead):
    import itertools
    return list(itertools.product(*[range(k) for _, k in lead])) or [()]


# ---- boolean helpers that work for python bools and SymBool alike ---------------------
import z3 as _z3
from vt.symreal import sym as _S


def _b(x):
    if isinstance(x, SymBool):
        return x.e
    if isinstance(x, _z3.BoolRef):
        return x
    return _z3.BoolVal(bool(x))


def _anysym(xs):
    return any(isinstance(x, (SymBool, _z3.BoolRef)) for x in xs)


def AND(*xs):
    xs = [x for x in xs]
    if not _anysym(xs):
        return all(bool(x) for x in xs)
    return SymBool(_z3.And(*[_b(x) for x in xs])) if xs else True


def OR(*xs):
    xs = [x for x in xs]
    if not _anysym(xs):
        return any(bool(x) for x in xs)
    return SymBool(_z3.Or(*[_b(x) for x in xs])) if xs else False


def NOT(x):
    if isinstance(x, (SymBool, _z3.BoolRef)):
        return SymBool(_z3.Not(_b(x)))
    return not bool(x)


def IMPLIES(a, b):
    return OR(NOT(a), b)


def near(env, a, b, rel=1e-9, abs_=1e-12, ctol=2e-5, catol=1e-9):
    """|a-b| <= abs + rel*|b| as a (Sym)bool; NaN == NaN."""
    an, bn = isnan(a), isnan(b)
    if an or bn:
        return an and bn
    if isinstance(a, (Sym,)) or isinstance(b, (Sym,)):
        az, bz = _S.toz(a), _S.toz(b)
        d = az - bz
        tol = _S.toz(abs_) + _S.toz(rel) * _z3.If(bz >= 0, bz, -bz)
        return SymBool(_z3.And(d <= tol, -d <= tol))
    a, b = float(a), float(b)
    return abs(a - b) <= catol + ctol * abs(b)
