"""Helpers shared by the property modules."""
import math

import numpy as np
import xarray as xr

from vt.refs import grids
from vt.symreal.sym import CF, Sym, SymBool

R2D = 180.0 / math.pi
D2R = math.pi / 180.0


def mk_spec(env, grid, name="E", lead=(), lo=0.0, hi=None, dims_order=None, freq=None, dirs=None):
    """DataArray 'efth' on a concrete grid with symbolic (or replayed) data.

    lead: tuple of (dimname, size) leading dims. Returns (da, vals) where vals is the
    underlying ndarray with dims lead+(freq,dir) (object dtype in sym mode)."""
    f, d = grids.get(grid) if isinstance(grid, str) else grid
    if freq is not None:
        f = np.asarray(freq, dtype=float)
    if dirs is not None:
        d = np.asarray(dirs, dtype=float)
    shape = tuple(n for _, n in lead) + (len(f),) + ((len(d),) if d is not None else ())
    vals = env.array(name, shape, lo=lo, hi=hi)
    dims = tuple(n for n, _ in lead) + ("freq",) + (("dir",) if d is not None else ())
    coords = {"freq": f}
    if d is not None:
        coords["dir"] = d
    for n, k in lead:
        if n == "time":
            coords[n] = np.array("2020-01-01T00", dtype="datetime64[ns]") + np.arange(k) * np.timedelta64(3, "h")
        else:
            coords[n] = np.arange(k)
    da = xr.DataArray(vals, dims=dims, coords=coords, name="efth")
    if dims_order:
        da = da.transpose(*dims_order)
    return da, vals


def rows(vals2d):
    """2-D ndarray -> list of lists of elements (for the reference integrals)."""
    return [list(r) for r in vals2d]


def total(vals):
    t = 0
    for v in np.asarray(vals, dtype=object).ravel():
        t = t + v
    return t


def item(x):
    """Scalar element out of a 0-d DataArray / ndarray / scalar."""
    if hasattr(x, "values"):
        x = x.values
    if isinstance(x, np.ndarray):
        x = x.item() if x.ndim == 0 or x.size == 1 else x
    return x


def isnan(x):
    return isinstance(x, (float, np.floating)) and math.isnan(x)


def angdiff(a, b):
    """Smallest absolute difference between two angles in degrees (floats)."""
    d = abs((float(a) - float(b)) % 360.0)
    return min(d, 360.0 - d)


def positions(lead):
    import itertools
    return list(itertools.product(*[range(k) for _, k in lead])) or [()]
