"""C02 Peak parameters are taken at the true spectral peak (Engine S: unit + composition)."""
import math

import numpy as np
import xarray as xr
import z3

from vt.harness import grid, harness
from vt.props.common import AND, IMPLIES, NOT, OR, R2D, angdiff, isnan, item, mk_spec, near, rows, total
from vt.refs import integrals as I
from vt.symreal import sym as S
from vt.symreal import stubs as ST
from vt.symreal.sym import Sym

P = "C02"

META = dict(
    level="model_checking",
    encoded=["SpecArray._peak/tp/fp/dp/dpm/dpspr/alpha/gamma", "xrstats.peak_wave_period/peak_wave_direction/mean_direction_at_peak_wave_period/peak_directional_spread/alpha",
             "npstats.tp/tps/dp/dpm/dpspr/alpha"],
    encoded_files=["wavespectra/specarray.py", "wavespectra/core/xrstats.py", "wavespectra/core/npstats.py"],
    bounds="1-D spectra with 3..6 frequencies and 2-D spectra 4-5 frequencies x 2-3 directions (grids P4,P5,P5b,G2), one optional leading dim of size 2; every bin an arbitrary real >= 0; symbolic 3-point frequency grid for the parabolic fit; symbolic fp for the alpha window",
    outside="float32 rounding of the returned values; the real apply_ufunc/dask plumbing (replaced by a reference loop in symbolic mode, exercised by the concrete replays); exp() is an uninterpreted function (alpha)",
    assumptions=["spectrum bins are finite reals >= 0", "stubs: cast identity, chunk identity, apply_ufunc reference loop inside xrstats, np.float32 identity inside npstats"],
)

PG = {
    "P4": dict(freq=[0.05, 0.1, 0.2, 0.4], dir=[0.0, 180.0]),
    "P5": dict(freq=[0.05, 0.08, 0.11, 0.2, 0.3], dir=[10.0, 190.0]),
    "P5b": dict(freq=[0.1, 0.15, 0.2, 0.25, 0.5], dir=[0.0, 120.0, 240.0]),
    "G2": dict(freq=[0.06, 0.11, 0.13, 0.30], dir=[5.0, 125.0, 245.0]),
    "P6": dict(freq=[0.04, 0.06, 0.09, 0.135, 0.2, 0.3], dir=[0.0, 180.0]),
    "P3": dict(freq=[0.05, 0.1, 0.2], dir=[0.0, 180.0]),
}


def gr(name):
    g = PG[name]
    return np.array(g["freq"]), np.array(g["dir"])


def ref_peaks(e1):
    n = len(e1)
    isp = {k: AND(e1[k - 1] < e1[k], e1[k] > e1[k + 1]) for k in range(1, n - 1)}

    def ismax(k):
        return AND(isp[k], *[IMPLIES(isp[j], e1[j] <= e1[k]) for j in isp if j != k])

    nopeak = AND(*[NOT(isp[k]) for k in isp]) if isp else True
    return isp, ismax, nopeak


@harness(P, quick=grid(nf=[3, 4, 5]), thorough=grid(nf=[6, 7]), max_paths=6000, time_budget_thorough=1500)
def peak_unit(env, nf):
    """_peak returns an interior strict local maximum of maximal height, 0 iff there is none."""
    f = np.linspace(0.05, 0.05 * nf, nf)
    e = env.array("E", (nf,), lo=0.0)
    arr = xr.DataArray(e, dims=("freq",), coords={"freq": f}, name="efth")
    i = int(arr.spec._peak(arr))
    isp, ismax, nopeak = ref_peaks(list(e))
    if i == 0:
        env.claim(nopeak, "ipeak=0 only without an interior strict local maximum")
    else:
        env.claim(1 <= i <= nf - 2, "peak index interior", {"i": i})
        if 1 <= i <= nf - 2:
            env.claim(ismax(i), "peak index is a highest interior strict local maximum", {"i": i})


def _tps_vertex(f, e, k):
    """Frequency of the vertex of the parabola through bins k-1,k,k+1 (independent formula)."""
    x1, x2, x3 = float(f[k - 1]), float(f[k]), float(f[k + 1])
    y1, y2, y3 = e[k - 1], e[k], e[k + 1]
    num = (x2 - x1) ** 2 * (y2 - y3) - (x2 - x3) ** 2 * (y2 - y1)
    den = (x2 - x1) * (y2 - y3) - (x2 - x3) * (y2 - y1)
    return num, den, x2  # vertex = x2 - 0.5*num/den


def _stubs():
    return ST.peak_stubs()


@harness(P, quick=grid(g=["P4", "P5"], smooth=[False, True], oned=[False]) + grid(g=["P4"], smooth=[False, True], oned=[True]),
         thorough=grid(g=["P5b", "G2", "P6"], smooth=[False, True], oned=[False]), max_paths=4000)
def peak_period(env, g, smooth, oned):
    """tp/fp: 1/f at the peak (discrete) or the parabola vertex strictly between the neighbours; NaN iff no interior peak."""
    f, d = gr(g)
    da, vals = mk_spec(env, (f, d))
    e1 = I.oned(rows(vals), d)
    obj = da
    if oned:
        # a genuinely 1-D object (no dir dim)
        v1 = env.array("E1", (len(f),), lo=0.0)
        obj = xr.DataArray(v1, dims=("freq",), coords={"freq": f}, name="efth")
        e1 = list(v1)
    with env.stubs(*_stubs()):
        tp = item(obj.spec.tp(smooth=smooth))
        fp = item(obj.spec.fp(smooth=smooth))
    isp, ismax, nopeak = ref_peaks(e1)
    if isnan(tp):
        env.claim(nopeak, "tp NaN only without an interior peak")
        env.claim(isnan(fp), "fp NaN with tp")
        return
    env.claim(NOT(nopeak), "tp defined only with an interior peak")
    alts = []
    for k in isp:
        if not smooth:
            alts.append(AND(ismax(k), near(env, tp, 1.0 / f[k])))
        else:
            num, den, x2 = _tps_vertex(f, e1, k)
            # tp * (x2 - num/(2 den)) == 1  <=>  tp*(2 den x2 - num) == 2 den
            lhs, rhs = tp * (2 * den * x2 - num), 2 * den
            alts.append(AND(ismax(k), near(env, lhs, rhs, rel=1e-7, abs_=0.0, ctol=1e-4, catol=0.0), tp * f[k + 1] > 1 - 1e-9, tp * f[k - 1] < 1 + 1e-9))
    env.claim(OR(*alts), "tp taken at a highest interior strict local maximum" + (" (parabola vertex between the neighbours)" if smooth else " (1/f[ipeak])"))
    env.claim(near(env, fp * tp, 1.0, rel=1e-6), "fp = 1/tp")


@harness(P, quick=grid(g=["P3"]), thorough=grid(g=["P4", "P5", "P5b", "G2"]), max_paths=4000, time_budget=300, time_budget_thorough=2400, hard_timeout_thorough=2700)
def peak_direction_stats(env, g):
    """dpm, dpspr evaluated at the same peak bin; NaN iff no interior peak."""
    f, d = gr(g)
    da, vals = mk_spec(env, (f, d))
    E = rows(vals)
    e1 = I.oned(E, d)
    env.assume(total(vals) > 0)
    isp, ismax, nopeak = ref_peaks(e1)
    ms, mc = I.momd1(E, d)
    with env.stubs(*_stubs()):
        if env.sym:
            n0 = len(S.ctx().calls["atan2"])
        dpm = item(da.spec.dpm())
        if env.sym:
            calls = S.ctx().calls["atan2"][n0:]
        with env.lazy_sqrt():
            dpspr = env.resolve(item(da.spec.dpspr()))
    if isnan(dpm):
        env.claim(nopeak, "dpm NaN only without an interior peak")
    else:
        env.claim(NOT(nopeak), "dpm defined only with an interior peak")
        if env.sym:
            env.claim(len(calls) == 1, "dpm uses one atan2")
            a, b, t = calls[-1]
            kk = _peak_index(env, isp, ismax)
            alts = [AND(ismax(k), S.SymBool(z3.And(a == S.toz(ms[k]), b == S.toz(mc[k])))) for k in ([kk] if kk is not None else isp)]
            env.claim(OR(*alts), "dpm = direction of the first moments of the peak frequency bin")
            o = S.toz(dpm)
            q = (270 - S.fconst(R2D) * t - o) / 360
            env.claim(z3.And(z3.ToReal(z3.ToInt(q)) == q, o >= 0, o < 360), "dpm:(270-R2D*atan2) mod 360")
        else:
            alts = []
            for k in isp:
                m2_ = float(ms[k]) ** 2 + float(mc[k]) ** 2
                if m2_ <= 1e-18 * float(e1[k]) ** 2:
                    # the first-moment vector of this bin vanishes (to rounding): its direction is undefined, any value goes
                    alts.append(bool(ismax(k)))
                else:
                    ref = (270.0 - math.degrees(math.atan2(float(ms[k]), float(mc[k])))) % 360.0
                    alts.append(bool(ismax(k)) and angdiff(dpm, ref) < 1e-3)
            env.claim(any(alts), "dpm = direction of the first moments of the peak frequency bin", {"dpm": float(dpm)})
    df = I.widths_f(f)
    if isnan(dpspr):
        # NaN when there is no interior peak, or the peak bin has (numerically) zero spread
        alts = [nopeak]
        kk = _peak_index(env, isp, ismax) if env.sym else None
        for k in ([kk] if kk is not None else isp):
            r2 = ms[k] * ms[k] + mc[k] * mc[k]
            alts.append(AND(ismax(k), r2 >= (1 - 1e-9) * e1[k] * e1[k]))
        env.claim(OR(*alts), "dpspr NaN only without an interior peak (or zero spread at the peak)")
    elif env.sym:
        env.claim(NOT(nopeak), "dpspr defined only with an interior peak")
        # structural check through the logged square roots: dpspr = sqrt(R_out), R_out = 2 R2D^2 (1 - y_in/(e_k df_k)),
        # y_in = sqrt(R_in), R_in = df_k^2 (msin_k^2 + mcos_k^2)
        log = S.ctx().calls["sqrt"]
        outer = [r for r, y in log if y.eq(dpspr.e)]
        env.claim(len(outer) == 1, "dpspr is a square root")
        kk = _peak_index(env, isp, ismax)
        if outer and kk is not None:
            k = kk
            found = False
            inner_ids = S.ctx().vars_of(outer[0])
            for r_in, y_in in [(r, y) for r, y in log if y.get_id() in inner_ids]:
                want_in = (ms[k] * df[k]) * (ms[k] * df[k]) + (mc[k] * df[k]) * (mc[k] * df[k])
                want_out = 2 * R2D**2 * (1 - Sym(y_in) / (e1[k] * df[k]))
                c = AND(near(env, Sym(r_in), want_in, rel=1e-9, abs_=0.0), near(env, Sym(outer[0]), want_out, rel=1e-9, abs_=1e-12))
                if env.proves(c, timeout=20000):
                    found = True
                    break
            env.claim(found, "dpspr^2 = 2 R2D^2 (1 - |m1_k|/e_k) at the peak frequency bin k", {"k": k})
        else:
            env.claim(kk is not None, "path condition determines the peak bin (harness cannot decide otherwise)")
    else:
        env.claim(NOT(nopeak), "dpspr defined only with an interior peak")
        alts = []
        for k in isp:
            ref2 = 2 * R2D**2 * (1 - math.sqrt(float(ms[k]) ** 2 + float(mc[k]) ** 2) / float(e1[k])) if float(e1[k]) > 0 else float("nan")
            alts.append(bool(ismax(k)) and abs(float(dpspr) ** 2 - ref2) <= 1e-3 + 1e-4 * abs(ref2))
        env.claim(any(alts), "dpspr^2 = 2 R2D^2 (1 - |m1_k|/e_k) at the peak frequency bin k", {"dpspr": float(dpspr)})


@harness(P, quick=grid(g=["P4", "G2"]), thorough=grid(g=["P5b", "P5"]))
def peak_dir(env, g):
    """dp is the direction coordinate maximising the frequency-summed spectrum."""
    f, d = gr(g)
    da, vals = mk_spec(env, (f, d))
    with env.stubs(*_stubs()):
        dp = item(da.spec.dp())
    col = [sum(vals[:, j]) for j in range(len(d))]
    alts = []
    for j in range(len(d)):
        alts.append(AND(near(env, dp, float(d[j]), rel=0, abs_=0, ctol=1e-6, catol=1e-6) if not isinstance(dp, Sym) else (dp == float(d[j])), *[col[j] >= col[m] for m in range(len(d)) if m != j]))
    env.claim(OR(*alts), "dp = direction coordinate of the largest frequency-summed density")


# frequencies exactly representable in float32 (xrstats casts the frequency coordinate to float32)
AG = {
    "A4": dict(freq=[0.0625, 0.125, 0.25, 0.5], dir=[0.0, 180.0]),
    "A5": dict(freq=[0.0625, 0.09375, 0.125, 0.15625, 0.25], dir=[0.0, 180.0]),
    "A6": dict(freq=[0.0625, 0.078125, 0.109375, 0.125, 0.1875, 0.21875], dir=[0.0, 120.0, 240.0]),
}


def _peak_index(env, isp, ismax):
    """Index of the peak implied by the path condition (None if it cannot be determined)."""
    for k in isp:
        if env.proves(ismax(k)):
            return k
    return None


@harness(P, quick=grid(g=["A4", "A5"], smooth=[True]), thorough=grid(g=["A6"], smooth=[True, False]) + grid(g=["A5"], smooth=[False]), max_paths=4000)
def alpha(env, g, smooth):
    """alpha: Phillips tail fit over the bins in (1.35fp, 2fp) with the 0/1/many rule; never raises."""
    gg = AG[g]
    f, d = np.array(gg["freq"]), np.array(gg["dir"])
    da, vals = mk_spec(env, (f, d))
    E = rows(vals)
    e1 = I.oned(E, d)
    env.assume(total(vals) > 0)
    isp, ismax, nopeak = ref_peaks(e1)
    with env.stubs(*_stubs()):
        fp = item(da.spec.fp(smooth=smooth))
        al = item(da.spec.alpha(smooth=smooth))
    if isnan(fp):
        env.claim(nopeak, "fp NaN only without an interior peak")
        env.claim(isnan(al), "alpha NaN without a peak frequency")
        return
    n = len(f)
    member = []
    for i in range(n):
        c = AND(float(f[i]) > 1.35 * fp, float(f[i]) < 2.0 * fp)
        if env.proves(c):
            member.append(True)
        elif env.proves(NOT(c)):
            member.append(False)
        else:
            env.claim(False, "path condition does not determine the tail-fit window (harness cannot decide)")
            return
    sel = [i for i in range(n) if member[i]]
    if len(sel) == 0:
        pos = [n - 2, n - 1]
    elif len(sel) == 1:
        pos = [sel[0] - 1, sel[0]] if sel[0] == n - 1 else [sel[0], sel[0] + 1]
    else:
        pos = sel
    ref = 0
    for i in pos:
        ref = ref + e1[i] * float(f[i]) ** 5 * _exp(env, 1.25 * (fp / float(f[i])) ** 4)
    ref = ref * ((2 * math.pi) ** 4 / 9.80665**2 / ((pos[-1] - pos[0]) + 1))
    env.claim(near(env, al, ref, rel=1e-7, ctol=1e-4), "alpha = Phillips tail fit over the bins in (1.35fp, 2fp) (0/1/many rule)", {"window": sel, "bins_used": pos})


@harness(P, quick=grid(g=["P4", "P5"], smooth=[True]), thorough=grid(g=["P5b", "P6"], smooth=[True, False]), max_paths=4000)
def gamma(env, g, smooth):
    """gamma: density at the peak over the Pierson-Moskowitz peak density 0.3125 hs^2 fp^-1 0.2865048, floored at 1."""
    f, d = gr(g)
    da, vals = mk_spec(env, (f, d))
    E = rows(vals)
    e1 = I.oned(E, d)
    env.assume(total(vals) > 0)
    isp, ismax, nopeak = ref_peaks(e1)
    with env.stubs(*_stubs()):
        fp = item(da.spec.fp(smooth=smooth))
        gm = item(da.spec.gamma(smooth=smooth, scaled=False))
    if isnan(fp):
        env.claim(nopeak, "fp NaN only without an interior peak")
        return
    hs2 = I.hs2(E, f, d)
    epm = 0.3125 * hs2 * 0.2865048  # times fp^4 * fp^-5 = 1/fp
    k = _peak_index(env, isp, ismax)
    ks = [k] if k is not None else list(isp)
    alts = []
    for k in ks:
        raw_times = e1[k] * fp  # gamma_raw * epm = e1[k] * fp
        alts.append(AND(ismax(k), OR(AND(near(env, gm * epm, raw_times, rel=1e-7, ctol=1e-4), gm >= 1 - 1e-9), AND(near(env, gm, 1.0, rel=1e-9, ctol=1e-6), raw_times <= epm * (1 + 1e-7)))))
    env.claim(OR(*alts), "gamma = density at the peak / Pierson-Moskowitz peak density (floored at 1)")


def _exp(env, x):
    if isinstance(x, Sym):
        return x.exp()
    with np.errstate(all="ignore"):
        return float(np.exp(np.float64(x)))


@harness(P, quick=[{}])
def tps_symbolic_grid(env):
    """npstats.tps with symbolic frequencies 0<f1<f2<f3 and symbolic densities e2>e1, e2>e3: vertex strictly between."""
    from wavespectra.core import npstats
    f1 = env.real("f1", lo=0.01, hi=1.0)
    d1 = env.real("d1", lo=0.001, hi=1.0)
    d2 = env.real("d2", lo=0.001, hi=1.0)
    f2, f3 = f1 + d1, f1 + d1 + d2
    e = [env.real("e%d" % i, lo=0.0, hi=100.0) for i in range(3)]
    env.assume(AND(e[1] > e[0], e[1] > e[2]))
    with env.stubs(lambda: ST.float32_identity(npstats)):
        tp = npstats.tps(1, np.array(e, dtype=object if env.sym else float), np.array([f1, f2, f3], dtype=object if env.sym else float))
    env.claim(AND(tp * f3 > 1, tp * f1 < 1), "smooth peak period strictly between the neighbouring periods")
