"""C03 Watershed partitions are a sound, ordered, energy-conserving split (Engine S + label-map contract from C04)."""
import contextlib
import itertools
import math

import numpy as np
import xarray as xr
import z3

from vt.harness import grid, harness
from vt.props.common import AND, NOT, OR, isnan, mk_spec, near, total
from vt.refs import integrals as I
from vt.symreal import stubs as ST
from vt.symreal import sym as S
from vt.symreal.sym import CF, Sym, SymBool

P = "C03"

META = dict(
    level="model_checking",
    encoded=["partition.np_ptm1/np_ptm2/np_ptm3", "Partition.ptm1/ptm2/ptm3 wrappers (output count and order)", "npstats.hs (ordering key)", "utils.celerity (wind-sea mask)"],
    encoded_files=["wavespectra/partition/partition.py", "wavespectra/core/npstats.py", "wavespectra/core/utils.py"],
    bounds="grids 2x2 (quick) and 2x3 / 3x2 (thorough); the watershed is replaced by EVERY label map the contract proven in C04 allows on the grid (all surjections of the bins onto 1..n, n <= 3, plus the all-zero map of a constant spectrum), enumerated exhaustively at the bound; spectrum, wind speed and wind-sea cutoff symbolic; wind direction, depth and age factor from fixed values; swells/parts in {None, 1, 2, 3, 4}",
    outside="which label map the C code returns for a given spectrum (C04); smoothing before the watershed (C16); the float32 cast of the returned dtype; connectedness of basins (any label map is accepted here, a superset)",
    assumptions=["spectrum bins are finite reals >= 0", "stub: specpart.partition returns the enumerated label map (contract of C04)", "stub: np.ascontiguousarray(dtype=float32) is the identity on symbolic arrays"],
)


def label_maps(nf, nd, nmax=3):
    out = [np.zeros((nf, nd), dtype=np.int32)]
    n = nf * nd
    for k in range(1, nmax + 1):
        for t in itertools.product(range(1, k + 1), repeat=n):
            if set(t) == set(range(1, k + 1)):
                out.append(np.array(t, dtype=np.int32).reshape(nf, nd))
    return out


class FakeSpecpart:
    def __init__(self, lab):
        self.lab = lab
        self.calls = 0

    def partition(self, arr, ihmax):
        self.calls += 1
        return self.lab.copy()


@contextlib.contextmanager
def fake_watershed(lab, sym):
    import wavespectra.partition.partition as PP
    old_sp, old_np = PP.specpart, PP.np
    PP.specpart = FakeSpecpart(lab)
    if sym:
        def ascont(a, dtype=None, **kw):
            if isinstance(a, np.ndarray) and a.dtype == object:
                return a
            return np.ascontiguousarray(a, dtype=dtype, **kw)
        def zeros(shape, dtype=None, **kw):
            # work arrays the code fills with statistics of the symbolic spectrum must be able to hold them
            a = np.empty(shape, dtype=object)
            a[...] = CF(0.0)
            return a
        PP.np = ST._Proxy(np, ascontiguousarray=ascont, zeros=zeros)
    try:
        yield PP.specpart
    finally:
        PP.specpart, PP.np = old_sp, old_np


def hs2_np(part, f, d):
    """npstats.hs squared (trapezoid over frequency of dd*sum over dir, tail) written independently."""
    dd = abs(d[1] - d[0]) % 360 if len(d) > 1 else 1.0
    dd = min(dd, 360 - dd) if len(d) > 1 else 1.0
    e1 = [sum(part[i, :]) * dd for i in range(len(f))] if len(d) > 1 else [part[i, 0] for i in range(len(f))]
    tot = sum(0.5 * (f[i + 1] - f[i]) * (e1[i + 1] + e1[i]) for i in range(len(f) - 1))
    if f[-1] > 0.333:
        tot = tot + 0.25 * e1[-1] * f[-1]
    return 16.0 * tot


GR = {"2x2": dict(freq=[0.1, 0.2], dir=[0.0, 180.0]), "2x3": dict(freq=[0.1, 0.4], dir=[0.0, 120.0, 240.0]), "3x2": dict(freq=[0.08, 0.16, 0.3], dir=[10.0, 190.0])}
WDIR, DPT, AGEFAC = 20.0, 30.0, 1.7


def _is_zero(env, x):
    if isinstance(x, (Sym, SymBool)):
        return x == 0
    return float(x) == 0.0


@harness(P,
         quick=[dict(method=m, k=k, g="2x2", nmax=3, chunk=c, nchunks=nc) for m, ks, nc in (("ptm1", (None, 1, 3), 4), ("ptm2", (1, 3), 6), ("ptm3", (None, 1, 2, 4), 1)) for k in ks for c in range(nc)] + [dict(method=m, k=2, g="3x2", nmax=2, chunk=0, nchunks=16, prelude=True) for m in ("ptm1", "ptm2")],
         thorough=[dict(method=m, k=1, g="3x2", nmax=2, chunk=c, nchunks=4, prelude=True) for m in ("ptm1", "ptm2") for c in range(4)] + [dict(method=m, k=k, g=g, nmax=2, chunk=c, nchunks=8) for m in ("ptm1", "ptm2", "ptm3") for k in (None, 1, 2, 3) for g in ("2x3", "3x2") for c in range(8)],
         max_paths=60000, time_budget=420, hard_timeout=700, time_budget_thorough=3300, hard_timeout_thorough=3600, witnesses=3)
def split(env, method, k, g, nmax, chunk=0, nchunks=1, prelude=False):
    """every partition bin is the input bin or 0; bins are not shared; conservation; requested count; wind sea by the
    wind-sea fraction rule; swells in non-increasing Hs with the dropped ones the smallest."""
    import wavespectra.partition.partition as PP
    from wavespectra.core import utils
    gg = GR[g]
    f, d = np.array(gg["freq"]), np.array(gg["dir"])
    nf, nd = len(f), len(d)
    maps = label_maps(nf, nd, nmax)[chunk::nchunks]
    li = env.choice("labelmap", len(maps))
    lab = maps[li]
    n = int(lab.max())
    E = env.array("E", (nf, nd), lo=0.0)
    wspd = env.real("wspd", lo=0.0, hi=60.0)
    wscut = env.real("wscut", lo=0.01, hi=0.99)
    if prelude:
        # an earlier partition call in the same process on ANOTHER frequency grid with the same size, end points
        # and depth must not influence this one (history independence of the Python side, C18)
        f0 = f.copy()
        f0[1:-1] = 0.5 * (f[:-2] + f[1:-1])
        with fake_watershed(np.ones((nf, nd), dtype=np.int32), False):
            PP.np_ptm1(np.ones((nf, nd)), np.ones((nf, nd)), f0, d, 12.0, WDIR, DPT, agefac=AGEFAC, wscut=0.3, swells=1, ihmax=100)
            PP.np_ptm2(np.ones((nf, nd)), np.ones((nf, nd)), f0, d, 12.0, WDIR, DPT, agefac=AGEFAC, wscut=0.3, swells=1, ihmax=100)
    with fake_watershed(lab, env.sym):
        if method == "ptm1":
            out = PP.np_ptm1(E, E, f, d, wspd, WDIR, DPT, agefac=AGEFAC, wscut=wscut, swells=k, ihmax=100)
        elif method == "ptm2":
            out = PP.np_ptm2(E, E, f, d, wspd, WDIR, DPT, agefac=AGEFAC, wscut=wscut, swells=k, ihmax=100)
        else:
            out = PP.np_ptm3(E, E, f, d, parts=k, ihmax=100)
    nws = {"ptm1": 1, "ptm2": 2, "ptm3": 0}[method]
    if k is not None:
        env.claim(out.shape == (k + nws, nf, nd), "exactly the requested number of partitions", {"shape": out.shape, "requested": k + nws})
    if out.ndim != 3 or out.shape[1:] != (nf, nd):
        env.claim(out.size == 0, "partition array has the spectrum's shape")
        return
    npart = out.shape[0]
    bins = list(np.ndindex(nf, nd))
    # soundness: each bin of each partition is the input bin or zero; no bin in two partitions
    env.claim(AND(*[OR(out[p][b] == E[b], _is_zero(env, out[p][b])) for p in range(npart) for b in bins]), "every partition bin holds the original energy density or zero")
    env.claim(AND(*[OR(_is_zero(env, out[p][b]), _is_zero(env, out[q][b])) for p in range(npart) for q in range(p + 1, npart) for b in bins]), "no bin is given to two partitions")
    sums = {b: sum(out[p][b] for p in range(npart)) for b in bins}
    # reference classification of the basins
    cel = np.asarray(utils.celerity(f, DPT), dtype=float)
    mask = {}
    for (i, j) in bins:
        c = AGEFAC * wspd * math.cos(math.radians(d[j] - WDIR)) > float(cel[i]) * (1 + 0.0)
        if env.sym:
            # undetermined by the path condition (the code under test compared against something else):
            # fork on the reference comparison, so that each side is judged against its own mask
            mask[(i, j)] = True if env.proves(c) else (False if env.proves(NOT(c)) else bool(c))
        else:
            mask[(i, j)] = bool(AGEFAC * float(wspd) * np.cos((np.pi / 180.0) * (d[j] - WDIR)) > cel[i])
    if method != "ptm3" and any(v is None for v in mask.values()):
        env.claim(False, "path condition determines the wind-sea mask (harness cannot decide otherwise)")
        return
    basins = {l: {b: (E[b] if lab[b] == l else 0.0) for b in bins} for l in range(1, n + 1)}
    is_ws = {}
    if method != "ptm3":
        for l in basins:
            num = sum(basins[l][b] for b in bins if mask[b] and lab[b] == l)
            den = sum(basins[l][b] for b in bins if lab[b] == l)
            c = num > wscut * den
            if env.sym:
                is_ws[l] = True if env.proves(c) else (False if env.proves(NOT(c)) else bool(c))
            else:
                is_ws[l] = bool(float(den) > 0 and float(num) / float(den) > float(wscut))
        if any(v is None for v in is_ws.values()):
            env.claim(False, "path condition determines the wind-sea classification (harness cannot decide otherwise)")
            return
    # expected wind-sea partitions and swell candidates
    if method == "ptm1":
        ws0 = {b: sum(basins[l][b] for l in basins if is_ws[l]) for b in bins}
        env.claim(AND(*[near(env, out[0][b], ws0[b], rel=0.0, abs_=0.0, ctol=1e-12, catol=0.0) for b in bins]), "PTM1 wind sea = union of the basins whose wind-sea fraction exceeds the cutoff")
        cands = [basins[l] for l in basins if not is_ws[l]]
    elif method == "ptm2":
        ws0 = {b: sum(basins[l][b] for l in basins if is_ws[l]) for b in bins}
        ws1 = {b: sum(basins[l][b] for l in basins if not is_ws[l] and mask[b]) for b in bins}
        env.claim(AND(*[near(env, out[0][b], ws0[b], rel=0.0, abs_=0.0, ctol=1e-12, catol=0.0) for b in bins]), "PTM2 primary wind sea = union of the wind-sea basins")
        env.claim(AND(*[near(env, out[1][b], ws1[b], rel=0.0, abs_=0.0, ctol=1e-12, catol=0.0) for b in bins]), "PTM2 secondary wind sea = wind-sea bins of the swell basins")
        cands = [{b: (basins[l][b] if not mask[b] else 0.0) for b in bins} for l in basins if not is_ws[l]]
    else:
        cands = [basins[l] for l in basins]
    swells = [out[p] for p in range(nws, npart)]
    # conservation
    ncand = n if method != "ptm1" else n  # the library compares the number of detected basins with the request
    kept_all = k is None or n <= k
    if kept_all:
        env.claim(AND(*[near(env, sums[b], E[b], rel=0.0, abs_=0.0, ctol=1e-12, catol=0.0) for b in bins]) if n > 0 else AND(*[_is_zero(env, sums[b]) for b in bins]),
                  "partitions add up exactly to the input when at least as many are requested as detected" if n > 0 else "a constant spectrum (no basin) gives empty partitions")
    else:
        env.claim(AND(*[sums[b] <= E[b] for b in bins]), "partitions add up to no more than the input when fewer are requested than detected")
    # ordering of the swells by npstats.hs, empty ones last
    hs = [hs2_np(sw, f, d) for sw in swells]
    env.claim(AND(*[hs[i] >= hs[i + 1] for i in range(len(hs) - 1)]), "swells in non-increasing order of significant height, empty partitions last")
    # each returned swell is one of the candidate basins (or empty); dropped candidates are the smallest
    used = []
    for sw in swells:
        which = None
        for ci, c in enumerate(cands):
            if ci in used:
                continue
            eq = AND(*[near(env, sw[b], c[b], rel=0.0, abs_=0.0, ctol=1e-12, catol=0.0) for b in bins])
            if env.proves(eq):
                which = ci
                break
        if which is None:
            env.claim(AND(*[_is_zero(env, sw[b]) for b in bins]), "a returned swell is one of the detected swell basins or empty")
        else:
            used.append(which)
    if hs:
        for ci, c in enumerate(cands):
            if ci not in used:
                hc = hs2_np(np.array([[c[(i, j)] for j in range(nd)] for i in range(nf)], dtype=object), f, d)
                env.claim(hc <= hs[-1], "a dropped swell is not larger than any returned one", {"dropped_candidate": ci})


@harness(P, quick=grid(method=["ptm1", "ptm2", "ptm3"], k=[1, 3]), thorough=[])
def wrapper_count(env, method, k):
    """accessor wrappers: 'part' has exactly the requested size, comes first, and each position is handled by its own call."""
    import wavespectra.partition.partition as PP
    f, d = np.array(GR["2x2"]["freq"]), np.array(GR["2x2"]["dir"])
    da, vals = mk_spec(env, (f, d), lead=(("site", 2),))
    lab = np.array([[1, 2], [2, 1]], dtype=np.int32)
    mk = lambda a: xr.DataArray(np.array(a), dims=("site",), coords={"site": da.site})
    wspd, wdir, dpt = mk([8.0, 15.0]), mk([WDIR, WDIR]), mk([DPT, DPT])
    with fake_watershed(lab, env.sym) as fake, env.stubs(lambda: ST.apply_ufunc_loop(PP), ST.cast_identity):
        if method == "ptm1":
            out = da.spec.partition.ptm1(wspd, wdir, dpt, swells=k)
        elif method == "ptm2":
            out = da.spec.partition.ptm2(wspd, wdir, dpt, swells=k)
        else:
            out = da.spec.partition.ptm3(parts=k)
        ncalls = fake.calls
    nws = {"ptm1": 1, "ptm2": 2, "ptm3": 0}[method]
    env.claim(out.dims[0] == "part" and out.sizes["part"] == k + nws, "'part' leads and has exactly the requested size", {"dims": out.dims, "sizes": dict(out.sizes)})
    env.claim(ncalls == 2, "one watershed call per spectrum")
    tot = out.sum("part").transpose(*da.dims)
    if k + nws >= 2 + nws or (method == "ptm3" and k >= 2):
        env.close(tot.values, vals, "wrapper: partitions add up to the input at every position", rel=0.0, abs_=0.0, ctol=1e-6, catol=1e-9)
