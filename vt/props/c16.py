"""C16 Smoothing is a local circular average that keeps the grid (Engine S, no stubs)."""
import numpy as np
import xarray as xr
import z3

from vt.harness import grid, harness
from vt.props.common import mk_spec
from vt.symreal import sym as S

P = "C16"

META = dict(
    level="model_checking",
    encoded=["utils.smooth_spec", "SpecArray.smooth"],
    encoded_files=["wavespectra/core/utils.py", "wavespectra/specarray.py"],
    bounds="grids: 4-5 frequencies x {4 full-circle dirs sorted / unsorted storage, 4 partial-circle dirs, 6 full-circle dirs at 7.5 deg offset, descending storage}; windows 1,3,5 per dimension up to the grid size; optional leading dim of size 2 and dir-before-freq storage; data: arbitrary reals >= 0",
    outside="IEEE rounding of the running mean; direction spacings that are not exactly representable in float32 (the property restricts itself to whole/dyadic degrees); dask-backed input",
    assumptions=["spectrum bins are finite reals >= 0", "rolling().mean() of xarray evaluated on object dtype performs the same additions/divisions as on floats"],
)

GR = {
    "circ4": dict(freq=[0.05, 0.1, 0.2, 0.4], dir=[0.0, 90.0, 180.0, 270.0]),
    "unsorted4": dict(freq=[0.05, 0.1, 0.2, 0.4], dir=[180.0, 270.0, 0.0, 90.0]),
    "partial4": dict(freq=[0.05, 0.1, 0.2, 0.4], dir=[0.0, 30.0, 60.0, 90.0]),
    "circ6": dict(freq=[0.1, 0.2, 0.3, 0.4, 0.5], dir=[7.5, 67.5, 127.5, 187.5, 247.5, 307.5]),
    # 15 of 16 bins of a 22.5-degree circle: NOT full circle (a gap of one bin), must not wrap
    "almost15": dict(freq=[0.1, 0.2, 0.3], dir=[22.5 * k for k in range(15)]),
    # 11 of 12 bins, stored unsorted
    "almost11u": dict(freq=[0.1, 0.2, 0.3], dir=[30.0 * k for k in (5, 6, 7, 8, 9, 10, 0, 1, 2, 3, 4)]),
    "desc4": dict(freq=[0.05, 0.1, 0.2, 0.4], dir=[270.0, 180.0, 90.0, 0.0]),
    "unsorted6": dict(freq=[0.1, 0.2, 0.3], dir=[120.0, 180.0, 240.0, 300.0, 0.0, 60.0]),
    # full circle stored evens-then-odds: the first two stored directions are not neighbours on the circle
    "shuffled6": dict(freq=[0.1, 0.2, 0.3], dir=[0.0, 120.0, 240.0, 60.0, 180.0, 300.0]),
}


def _circular(dirs):
    s = np.sort(dirs)
    dd = np.diff(s)
    return len(set(dd)) == 1 and abs(s.max() - s.min() + dd[0] - 360) < 0.1 * dd[0]


def _window(vals2d, f, dirs, i, j, fw, dw):
    """Labelled neighbourhood of bin (i, j): list of elements, and whether the window fits."""
    hf, hd = fw // 2, dw // 2
    order = np.argsort(dirs)          # position in sorted direction order
    rank = {int(jj): r for r, jj in enumerate(order)}
    circ = _circular(dirs)
    nd, nf = len(dirs), len(f)
    fits = (i - hf >= 0) and (i + hf < nf)
    cells = []
    for di in range(-hf, hf + 1):
        ii = i + di
        if not (0 <= ii < nf):
            continue
        for dj in range(-hd, hd + 1):
            r = rank[j] + dj
            if circ:
                r %= nd
            elif not (0 <= r < nd):
                fits = False
                continue
            cells.append(vals2d[ii, int(order[r])])
    return cells, fits


@harness(P,
         quick=grid(g=["circ4", "unsorted4", "partial4"], fw=[1, 3], dw=[1, 3], lead=[()]) + grid(g=["circ6"], fw=[1, 3], dw=[5], lead=[()]) + grid(g=["almost15"], fw=[1], dw=[3], lead=[()]) + grid(g=["unsorted6"], fw=[1, 3], dw=[3, 5], lead=[()]) + grid(g=["shuffled6"], fw=[1, 3], dw=[3], lead=[()]) + grid(g=["circ4"], fw=[3], dw=[3], lead=[(("site", 2),)]),
         thorough=grid(g=["desc4", "circ6"], fw=[1, 3], dw=[1, 3, 5], lead=[()]) + grid(g=["almost15", "almost11u"], fw=[1, 3], dw=[3, 5], lead=[()]) + grid(g=["circ6"], fw=[5], dw=[1, 5], lead=[()]) + grid(g=["unsorted4", "partial4"], fw=[3], dw=[3], lead=[(("time", 2),)]))
def smooth_values(env, g, fw, dw, lead):
    """Coordinates kept; window mean where the window fits; within [min,max] of the neighbourhood elsewhere."""
    gg = GR[g]
    f, d = np.array(gg["freq"]), np.array(gg["dir"])
    da, vals = mk_spec(env, (f, d), lead=lead)
    out = da.spec.smooth(freq_window=fw, dir_window=dw)
    env.claim(tuple(out.dims) == tuple(da.dims), "dims and their order kept", {"out": out.dims, "in": da.dims})
    env.claim(all(np.array_equal(out[c].values, da[c].values) for c in da.dims), "coordinates kept")
    env.claim(out.shape == da.shape, "shape kept")
    out = out.transpose(*da.dims)
    ov = out.values
    import itertools
    for pos in itertools.product(*[range(k) for _, k in lead]):
        v2, o2 = vals[pos], ov[pos]
        exact, lo_hi = [], []
        for i in range(len(f)):
            for j in range(len(d)):
                cells, fits = _window(v2, f, d, i, j, fw, dw)
                if fits:
                    mean = sum(cells) / float(len(cells))
                    exact.append((o2[i, j], mean))
                else:
                    lo_hi.append((o2[i, j], cells))
        if exact:
            env.close([a for a, _ in exact], [b for _, b in exact], "window mean where the window fits", rel=1e-12, abs_=0.0)
        for o, cells in lo_hi:
            if env.sym:
                oz = S.toz(o)
                env.claim(z3.And(z3.Or(*[oz >= S.toz(c) for c in cells]), z3.Or(*[oz <= S.toz(c) for c in cells])), "edge value within [min,max] of its neighbourhood")
            else:
                cs = [float(c) for c in cells]
                env.claim(min(cs) - 1e-9 <= float(o) <= max(cs) + 1e-9, "edge value within [min,max] of its neighbourhood", {"out": float(o), "cells": cs})
    if fw == 1 and dw == 1:
        env.equal(ov, vals, "window 1 is the identity")


@harness(P, quick=grid(g=["circ4"], fw=[3], dw=[3], shift=[1, 2]) + grid(g=["unsorted4"], fw=[1], dw=[3], shift=[1]) + grid(g=["circ6"], fw=[1], dw=[5], shift=[1, 4]),
         thorough=grid(g=["circ6"], fw=[3], dw=[3, 5], shift=[1, 2, 3, 5]) + grid(g=["unsorted6"], fw=[1], dw=[3], shift=[2]))
def shift_commutes(env, g, fw, dw, shift):
    """smooth(data shifted circularly along dir) == shift(smooth(data)) on full-circle grids."""
    gg = GR[g]
    f, d = np.array(gg["freq"]), np.array(gg["dir"])
    da, vals = mk_spec(env, (f, d))
    order = np.argsort(d)
    # shift in labelled (sorted) direction order
    rolled = np.empty_like(vals)
    for r, j in enumerate(order):
        rolled[:, j] = vals[:, order[(r + shift) % len(d)]]
    db = xr.DataArray(rolled, dims=da.dims, coords=da.coords, name="efth")
    a = da.spec.smooth(freq_window=fw, dir_window=dw).transpose("freq", "dir").values
    b = db.spec.smooth(freq_window=fw, dir_window=dw).transpose("freq", "dir").values
    a_rolled = np.empty_like(a)
    for r, j in enumerate(order):
        a_rolled[:, j] = a[:, order[(r + shift) % len(d)]]
    env.close(b, a_rolled, "smooth commutes with a circular shift by %d bins" % shift, rel=1e-12, abs_=0.0)


@harness(P, quick=grid(fw=[2, 3, 4], dw=[2, 3]))
def even_rejected(env, fw, dw):
    gg = GR["circ4"]
    da, vals = mk_spec(env, (np.array(gg["freq"]), np.array(gg["dir"])))
    even = fw % 2 == 0 or dw % 2 == 0
    try:
        da.spec.smooth(freq_window=fw, dir_window=dw)
        raised = False
    except ValueError:
        raised = True
    env.claim(raised == even, "even windows rejected with ValueError, odd ones accepted", {"fw": fw, "dw": dw, "raised": raised})
