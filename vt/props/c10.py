"""C10 Statistics obey energy scaling, rotation symmetry and physical bounds (Engine S, relational)."""
import math

import numpy as np
import xarray as xr
import z3

from vt.harness import grid, harness
from vt.props.common import AND, NOT, OR, R2D, angdiff, isnan, item, mk_spec, near, rows, total
from vt.refs import integrals as I
from vt.symreal import stubs as ST
from vt.symreal import sym as S
from vt.symreal.sym import Sym

P = "C10"

META = dict(
    level="model_checking",
    encoded=["SpecArray.hs/hrms/hmax/momf/tm01/tm02/dm/dspr/swe/sw/gw/goda/uss/mss/tp/dp/dpm/scale_by_hs", "npstats.dm/dpm"],
    encoded_files=["wavespectra/specarray.py", "wavespectra/core/npstats.py", "wavespectra/core/xrstats.py"],
    bounds="grids G1,G2,G3,P4 (<= 4x4 bins); scale factor k symbolic in [1e-6,1e6] for the polynomial statistics (hs^2, moments, drift, slope, tm01, tm02) and k in {1e-6, 0.37, 7, 1e6} for the root/ratio ones; relabelling angles a in {90, 97, -26.5, 360, 725.25}; scale_by_hs with symbolic coefficients a,b >= 0 and symbolic hs range limits",
    outside="IEEE rounding; k outside the listed values for root/ratio statistics; that atan2 of a rotated vector is the rotated angle (mathematical fact used to go from the proven rotation of the moment vector to the shift of dm/dpm); tp/dpm range conditions of scale_by_hs only in the thorough tier",
    assumptions=["spectrum bins are finite reals >= 0", "positive energy; hs >= 0.001 on both sides where sw is compared (its documented cut-off)"],
)


def _nondegenerate(env, vals, share=1e-3):
    """positive energy in at least two frequencies and two directions (each with at least `share`
    of the total, so that the statement is meaningful in floating point)."""
    nf, nd = vals.shape
    tot = total(vals)
    e1 = [sum(vals[i, :]) for i in range(nf)]
    col = [sum(vals[:, j]) for j in range(nd)]
    env.assume(tot > 0)
    if nf > 1:
        env.assume(OR(*[AND(e1[i] >= share * tot, e1[j] >= share * tot) for i in range(nf) for j in range(i + 1, nf)]))
    if nd > 1:
        env.assume(OR(*[AND(col[i] >= share * tot, col[j] >= share * tot) for i in range(nd) for j in range(i + 1, nd)]))


def _scaled(da, vals, k):
    return xr.DataArray(vals * k, dims=da.dims, coords=da.coords, name="efth")


@harness(P, quick=grid(g=["G1", "G2"]), thorough=grid(g=["G3", "G5", "D6"]))
def scaling_symbolic_k(env, g):
    """k symbolic: heights scale by sqrt(k), moments/drift/slope by k, tm01/tm02 unchanged."""
    da, vals = mk_spec(env, g)
    k = env.real("k", lo=1e-6, hi=1e6)
    env.assume(total(vals) > 0)
    db = _scaled(da, vals, k)
    for st in ("hs", "hrms", "hmax"):
        a, b = item(getattr(da.spec, st)()), item(getattr(db.spec, st)())
        env.close(b * b, k * (a * a), st + "(kS)^2 = k " + st + "(S)^2")
    for n in (0, 1, 2):
        env.close(item(db.spec.momf(n)), k * item(da.spec.momf(n)), "momf(%d) scales by k" % n)
    env.close(item(db.spec.uss()), k * item(da.spec.uss()), "uss scales by k")
    env.close(item(db.spec.mss()), k * item(da.spec.mss()), "mss scales by k")
    env.close(item(db.spec.uss(depth=20.0)), k * item(da.spec.uss(depth=20.0)), "uss(depth) scales by k")
    env.close(item(db.spec.tm01()), item(da.spec.tm01()), "tm01 unchanged")
    a, b = item(da.spec.tm02()), item(db.spec.tm02())
    env.close(b * b, a * a, "tm02 unchanged")


@harness(P, quick=grid(g=["G1", "G2"], k=[1e-6, 7.0], stat=["goda", "swe", "sw", "gw", "dspr", "dm"]),
         thorough=grid(g=["G3", "G1"], k=[0.37, 1e6], stat=["goda", "swe", "sw", "gw", "dspr", "dm"]))
def scaling_shape(env, g, k, stat):
    """concrete k: shape / spread / direction statistics unchanged."""
    da, vals = mk_spec(env, g)
    f, d = da.freq.values, da.dir.values
    _nondegenerate(env, vals)
    hs2 = I.hs2(rows(vals), f, d)
    env.assume(AND(hs2 >= 0.0011**2, hs2 * k >= 0.0011**2))
    db = _scaled(da, vals, k)
    if stat == "dm":
        if env.sym:
            n0 = len(S.ctx().calls["atan2"])
        a, b = item(da.spec.dm()), item(db.spec.dm())
        if env.sym:
            (a1, b1, _), (a2, b2, _) = S.ctx().calls["atan2"][n0:n0 + 2]
            env.claim(z3.And(a2 == S.fconst(k) * a1, b2 == S.fconst(k) * b1), "dm: moment vector scales by k (direction unchanged)")
        else:
            env.claim(angdiff(a, b) < 1e-3, "dm unchanged", {"a": float(a), "b": float(b)})
        return
    with env.lazy_sqrt():
        a = env.resolve(item(getattr(da.spec, stat)()))
        b = env.resolve(item(getattr(db.spec, stat)()))
    if isnan(a) or isnan(b):
        env.claim(isnan(a) and isnan(b), stat + ": NaN on one side only")
        return
    if stat == "goda":
        env.close(b, a, "goda unchanged", rel=1e-9)
    else:
        env.close(b * b, a * a, stat + " unchanged", rel=1e-9, abs_=1e-12, ctol=1e-4, catol=1e-7)


ANGLES = [90.0, 97.0, -26.5, 360.0, 725.25]


@harness(P, quick=grid(g=["G1", "G2"], a=[90.0, 97.0, -26.5], inplace=[False]) + grid(g=["G1"], a=[97.0, 90.0], inplace=[True]) + grid(g=["S2"], a=[350.0, 90.0], inplace=[False]), thorough=grid(g=["S2", "PS"], a=[350.0, 45.0, 725.25], inplace=[False, True]) + grid(g=["G3", "D6"], a=ANGLES, inplace=[False, True]) + grid(g=["G1"], a=[360.0, 725.25], inplace=[False]))
def rotation(env, g, a, inplace):
    """relabel dir -> (dir + a) % 360: non-directional statistics unchanged, moment vector rotates by a, dp shifts by a.
    inplace: the relabelling is an in-place coordinate assignment on an object whose statistics were already used."""
    da, vals = mk_spec(env, g)
    f, d = da.freq.values, da.dir.values
    E = rows(vals)
    env.assume(total(vals) > 0)
    if inplace:
        db = xr.DataArray(vals.copy(), dims=da.dims, coords=da.coords, name="efth")
        db.spec.dm(), db.spec.hs(), db.spec.momd(1), db.spec.dspr()   # earlier calls on the same object
        db["dir"] = (d + a) % 360
    else:
        db = da.assign_coords(dir=(d + a) % 360)
    tot = total(vals)
    for st in ("hs", "hrms"):
        x, y = item(getattr(da.spec, st)()), item(getattr(db.spec, st)())
        env.close(y * y, x * x, st + " unchanged by relabelling", rel=1e-12)
    env.close(item(db.spec.tm01()), item(da.spec.tm01()), "tm01 unchanged by relabelling", rel=1e-12)
    x, y = item(da.spec.tm02()), item(db.spec.tm02())
    env.close(y * y, x * x, "tm02 unchanged by relabelling", rel=1e-12)
    env.close(item(db.spec.goda()), item(da.spec.goda()), "goda unchanged by relabelling", rel=1e-12)
    # first moments rotate: (mcos', msin') = R(-a) (mcos, msin) per frequency
    ms, mc = da.spec.momd(1)
    ms2, mc2 = db.spec.momd(1)
    ca, sa = math.cos(math.radians(a)), math.sin(math.radians(a))
    e1 = I.oned(E, d)
    env.close(mc2.values, [ca * c + sa * s for c, s in zip(mc.values, ms.values)], "cos moments rotate by the relabelling angle", scale=e1)
    env.close(ms2.values, [-sa * c + ca * s for c, s in zip(mc.values, ms.values)], "sin moments rotate by the relabelling angle", scale=e1)
    if env.sym:
        n0 = len(S.ctx().calls["atan2"])
    x, y = item(da.spec.dm()), item(db.spec.dm())
    if env.sym:
        (a1, b1, t1), (a2, b2, t2) = S.ctx().calls["atan2"][n0:n0 + 2]
        lim = S.toz(1e-9 * I.width_d(d)) * S.toz(tot)
        d1, d2 = a2 - (-sa * b1 + ca * a1), b2 - (ca * b1 + sa * a1)
        env.claim(z3.And(d1 <= lim, -d1 <= lim, d2 <= lim, -d2 <= lim), "dm: atan2 arguments are the rotated moment vector")
        for o, t in ((x, t1), (y, t2)):
            oz = S.toz(o)
            q = (270 - S.fconst(R2D) * t - oz) / 360
            env.claim(z3.And(z3.ToReal(z3.ToInt(q)) == q, oz >= 0, oz < 360), "dm in [0,360) = (270 - R2D*atan2) mod 360")
    else:
        A, B = float(sum(ms.values)), float(sum(mc.values))
        if A * A + B * B > 1e-6 * float(tot) ** 2:
            env.claim(angdiff(float(y), float(x) + a) < 1e-3, "dm shifts by the relabelling angle", {"dm": float(x), "dm_rot": float(y), "a": a})


@harness(P, quick=grid(g=["G1", "G2"], a=[90.0, -26.5]), thorough=grid(g=["G3", "D6"], a=ANGLES), max_paths=3000)
def rotation_peaks(env, g, a):
    """relabel dir -> (dir + a) % 360: dp shifts by a, tp unchanged."""
    da, vals = mk_spec(env, g)
    d = da.dir.values
    env.assume(total(vals) > 0)
    db = da.assign_coords(dir=(d + a) % 360)
    with env.stubs(*ST.peak_stubs()):
        p1, p2 = item(da.spec.dp()), item(db.spec.dp())
        t1, t2 = item(da.spec.tp()), item(db.spec.tp())
    env.claim(angdiff(float(p2), float(p1) + a) < 1e-4, "dp shifts by the relabelling angle", {"dp": float(p1), "dp_rot": float(p2)})
    env.claim(near(env, t2, t1, rel=1e-12) if not (isnan(t1) or isnan(t2)) else (isnan(t1) and isnan(t2)), "tp unchanged by relabelling")


@harness(P, quick=grid(g=["G3", "F2"]), thorough=grid(g=["G2", "G1", "G5"]), max_paths=3000, time_budget_thorough=2400, hard_timeout_thorough=2700)
def bounds(env, g):
    """1/fmax <= Tm02 <= Tm01 <= 1/fmin; dspr in [0, sqrt(2) R2D]; swe real and <= 1; sw real.

    The Cauchy-Schwarz facts are proven once for arbitrary non-negative frequency spectra (generic
    lemmas over fresh variables) and instantiated; the claims are on the implementation's outputs."""
    da, vals = mk_spec(env, g)
    f, d = da.freq.values, da.dir.values
    E = rows(vals)
    e1 = I.oned(E, d)
    _nondegenerate(env, vals)
    w = I.widths_f(f)
    nf = len(f)

    def mom(xs, n):
        return sum(x * (w[i] * float(f[i]) ** n) for i, x in enumerate(xs))

    env.generic_lemma(lambda xs: mom(xs, 1) * mom(xs, 1) <= (1 + 1e-12) * mom(xs, 0) * mom(xs, 2), e1, "lemma: m1^2 <= m0 m2 for every non-negative frequency spectrum")
    env.generic_lemma(lambda xs: mom(xs, 2) * mom(xs, 2) <= (1 + 1e-12) * mom(xs, 0) * mom(xs, 4), e1, "lemma: m2^2 <= m0 m4 for every non-negative frequency spectrum")
    fmin, fmax = float(f.min()), float(f.max())
    t1 = item(da.spec.tm01())
    t2 = item(da.spec.tm02())
    env.claim(AND(t1 * fmin <= 1 + 1e-9, t2 * fmax >= 1 - 1e-9), "Tm01 <= 1/fmin and Tm02 >= 1/fmax")
    env.claim(t2 <= t1 * (1 + 1e-9), "Tm02 <= Tm01")
    v = item(da.spec.swe())
    env.claim(not isnan(v), "swe is real for a non-degenerate spectrum")
    if not isnan(v):
        env.claim(AND(v >= 0, v <= 1), "0 <= swe <= 1")
    if I.hs2(E, f, d) is not None:
        env.assume(I.hs2(E, f, d) >= 0.0011**2)
    v = item(da.spec.sw())
    env.claim(not isnan(v), "sw is real for a non-degenerate spectrum")
    # direction: |first moment| <= (1+1e-9) * energy, bin by bin (cos^2+sin^2 of a float angle is 1 only to rounding)
    c, s_ = I.trig(d)
    flat = [x for r in E for x in r]
    nd = len(d)

    def dirlemma(xs):
        A = sum(xs[i * nd + j] * (w[i] * s_[j]) for i in range(nf) for j in range(nd))
        B = sum(xs[i * nd + j] * (w[i] * c[j]) for i in range(nf) for j in range(nd))
        M = sum(xs[i * nd + j] * w[i] for i in range(nf) for j in range(nd))
        return A * A + B * B <= (1 + 1e-9) * M * M

    env.generic_lemma(dirlemma, flat, "lemma: |first directional moment| <= energy", timeout=120000)
    v = item(da.spec.dspr())
    if isnan(v):
        A, B = I.dm_components(E, f, d)
        m0 = I.momf(E, f, d, 0)
        env.claim((A * A + B * B) >= (1 - 1e-9) * m0 * m0, "dspr NaN only at (numerically) zero spread")
    else:
        env.claim(AND(v >= 0, v <= math.sqrt(2) * R2D * (1 + 1e-9)), "dspr in [0, 81.03] degrees")


@harness(P, quick=grid(g=["G2", "G3"], lead=[(("site", 2),)], window=["hs"]) + grid(g=["G2"], lead=[(("site", 2),)], window=["tp", "dpm"]),
         thorough=grid(g=["G1"], lead=[(("time", 2),)], window=["hs", "tp", "dpm"]) + grid(g=["G3"], lead=[(("site", 2),)], window=["tp", "dpm"]), max_paths=3000, time_budget=240, hard_timeout=420)
def scale_by_hs(env, g, lead, window="hs"):
    """scale_by_hs('va*hs+vb', <window>_min, <window>_max): prescribed height for the spectra whose hs / tp / dpm
    lies inside the window, every other spectrum untouched - in particular one whose tp / dpm is missing (no
    interior peak). Membership of tp / dpm is judged with the library's own tp() / dpm() (checked in C02)."""
    import wavespectra.specarray as SA
    da, vals = mk_spec(env, g, lead=lead)
    f, d = da.freq.values, da.dir.values
    va = env.real("va", lo=0.0, hi=10.0)
    vb = env.real("vb", lo=0.01, hi=10.0)
    if window == "hs":
        lo = env.real("hs_lo", lo=0.0, hi=20.0)
        hi = env.real("hs_hi", lo=0.0, hi=20.0)
    elif window == "tp":
        lo = env.real("tp_lo", lo=0.5, hi=30.0)
        hi = env.real("tp_hi", lo=0.5, hi=30.0)
    else:
        lo = env.real("dpm_lo", lo=0.0, hi=360.0)
        hi = env.real("dpm_hi", lo=0.0, hi=360.0)
    env.assume(lo < hi)
    n = lead[0][1]
    for p in range(n):
        env.assume(total(vals[p]) > 0)
    SA.va, SA.vb = va, vb
    try:
        with env.stubs(ST.chunk_identity, *ST.peak_stubs()), env.lazy_sqrt():
            out = da.spec.scale_by_hs("va*hs + vb", **{window + "_min": lo, window + "_max": hi})
            ref_stat = None if window == "hs" else getattr(da.spec, window)()
    finally:
        del SA.va, SA.vb
    out = out.transpose(*da.dims)
    env.claim(tuple(out.dims) == tuple(da.dims) and out.shape == da.shape, "shape kept")
    for p in range(n):
        E = rows(vals[p])
        Eo = rows(out.values[p])
        h2 = I.hs2(E, f, d)
        h = env.sqrt(h2)
        ho2 = I.hs2(Eo, f, d)
        target = va * h + vb
        if window == "hs":
            inside = AND(h >= lo, h <= hi)
        else:
            sv = env.resolve(np.asarray(ref_stat.values, dtype=object).ravel()[p])
            if isnan(sv):
                env.equal(out.values[p], vals[p], "missing %s (no interior peak): spectrum untouched" % window)
                continue
            inside = AND(sv >= lo, sv <= hi)
        # when the path condition leaves membership open, fork on it: each side is judged on its own
        member = True if env.proves(inside) else (False if env.proves(NOT(inside)) else bool(inside))
        if member:
            env.close(ho2, target * target, "inside the %s window: hs(out) = a*hs(in)+b" % window, rel=1e-9, ctol=1e-5)
        else:
            env.equal(out.values[p], vals[p], "outside the %s window: spectrum untouched" % window)
