"""C05 Results depend on labelled values, not on storage order or memory layout (Engine S relational + SMT address map)."""
import itertools
import time

import numpy as np
import xarray as xr
import z3

from vt.harness import HarnessInstance, REGISTRY, grid, harness
from vt.props import ops as O
from vt.props.common import isnan, mk_spec, total
from vt.symreal import sym as S
from vt.symreal.sym import Sym

P = "C05"

META = dict(
    level="model_checking",
    encoded=["SpecArray statistics/transforms and Partition.ptm4/ptm5/bbox listed in vt/props/ops.py", "npstats.hs/dm/mom1", "np_ptm1/np_ptm2/np_ptm3/np_hp01 call sites of specpart.partition", "specpart_wrap.c (reads PyArray_DATA as packed C-ordered float32)"],
    encoded_files=["wavespectra/specarray.py", "wavespectra/core/utils.py", "wavespectra/core/npstats.py", "wavespectra/partition/partition.py", "wavespectra/partition/specpart/specpart_wrap.c", "wavespectra/core/xrstats.py"],
    bounds="grid G1 (4x4) and U4/D6: the same symbolic data presented with dims transposed (dir before freq, leading dim last), with the stored direction sequence rolled by every r (seam between any two stored bins) and reversed (descending); C boundary: shapes up to 64x64 in the address-map query, dataset variants {C order, Fortran order, dir-before-freq, strided view, float32/float64}",
    outside="dtype width as a rounding question (float32 vs float64 values); watershed tie-breaking under reversal (exempt by the property); IEEE rounding",
    assumptions=["spectrum bins are finite reals >= 0", "numpy evaluates object-dtype arrays independently of memory order"],
)


def _variant(da, kind, r=0):
    if kind == "transpose":
        return da.transpose(*reversed(da.dims))
    if kind == "roll":
        return da.roll(dir=r, roll_coords=True)
    if kind == "descending":
        return da.isel(dir=slice(None, None, -1))
    if kind == "roll_desc":
        return da.roll(dir=r, roll_coords=True).isel(dir=slice(None, None, -1))
    raise KeyError(kind)


VARS = [("transpose", 0), ("roll", 1), ("roll", 2), ("roll", 3), ("descending", 0), ("roll_desc", 1)]
ALLOPS = O.CHEAP + O.ROOTS + O.TRANSFORMS + O.PARTS


def _cmp(env, base, var, label):
    base, var = O.as_dataset(base), O.as_dataset(var)
    for name in base.data_vars:
        b, v = base[name], var[name]
        env.claim(set(b.dims) == set(v.dims), label + ": same dimensions", {"base": b.dims, "variant": v.dims})
        if set(b.dims) != set(v.dims):
            continue
        v = v.transpose(*b.dims)
        same_labels = all(sorted(np.asarray(b[c].values, dtype=float).tolist()) == sorted(np.asarray(v[c].values, dtype=float).tolist()) for c in b.dims if c in b.coords)
        env.claim(same_labels, label + ": same coordinate labels", {c: [b[c].values.tolist(), v[c].values.tolist()] for c in b.dims if c in b.coords})
        if not same_labels:
            continue
        v = v.sel({c: b[c].values for c in b.dims if c in b.coords})
        env.close(v.values, b.values, label + ": same labelled values", rel=1e-9, abs_=1e-12, ctol=1e-6, catol=1e-9)


@harness(P, quick=[dict(op=op, g="G1", kind=k, r=r) for op in ALLOPS for k, r in VARS if not (op in ("interp", "rotate", "ptm5", "smooth13", "split_dir", "to_energy", "crsd", "mss") and (k, r) in (("roll", 2), ("roll", 3)))]
         + [dict(op=op, g="P4", kind=k, r=r) for op in O.PEAKS for k, r in (("transpose", 0), ("roll", 1), ("descending", 0))],
         thorough=[dict(op=op, g=g, kind=k, r=r) for op in ALLOPS for g in ("U4", "D6") for k, r in (("transpose", 0), ("roll", 1), ("roll", 3), ("roll", 5), ("descending", 0), ("roll_desc", 2))], max_paths=3000)
def storage(env, op, g, kind, r):
    """op(variant) == op(base) label for label."""
    from vt.props.c02 import PG
    if g in PG:
        da, vals = mk_spec(env, (np.array(PG[g]["freq"]), np.array(PG[g]["dir"])))
    else:
        da, vals = mk_spec(env, g)
    if r >= da.sizes["dir"]:
        r = r % da.sizes["dir"]
    env.assume(total(vals) > 0)
    aux = None
    if O.OPS[op].get("wind"):
        aux = dict(wspd=env.real("wspd", lo=0.0, hi=60.0), wdir=47.0, dpt=30.0)
    if op == "dp":
        # with an exact tie between two directions either is "the" peak direction: not a layout question
        col = [sum(vals[:, j]) for j in range(vals.shape[1])]
        from vt.props.common import AND
        env.assume(AND(*[col[i] != col[j] for i in range(len(col)) for j in range(i + 1, len(col))]))
    base = O.run(env, op, da, aux)
    var = O.run(env, op, _variant(da, kind, r), aux)
    _cmp(env, base, var, "%s under %s%s" % (op, kind, "(%d)" % r if r else ""))


@harness(P, quick=grid(g=["G1"], kind=["roll", "descending"], r=[1]), thorough=grid(g=["U4", "D6"], kind=["roll", "descending", "roll_desc"], r=[1, 3]))
def np_twins(env, g, kind, r):
    """npstats.hs / dm / mom1 on numpy arrays with rolled / reversed directions."""
    from wavespectra.core import npstats
    da, vals = mk_spec(env, g)
    f, d = da.freq.values, da.dir.values
    tot = total(vals)
    env.assume(tot > 0)
    db = _variant(da, kind, r)
    v2, d2 = db.values, db.dir.values
    a, b = npstats.hs(vals, f, d), npstats.hs(v2, f, d2)
    env.close(b * b, a * a, "npstats.hs under %s" % kind, rel=1e-12)
    if env.sym:
        n0 = len(S.ctx().calls["atan2"])
    x, y = npstats.dm(vals, d), npstats.dm(v2, d2)
    if env.sym:
        (a1, b1, _), (a2, b2, _) = S.ctx().calls["atan2"][n0:n0 + 2]
        lim = S.toz(1e-9 * 360.0) * S.toz(tot)
        env.claim(z3.And(a1 - a2 <= lim, a2 - a1 <= lim, b1 - b2 <= lim, b2 - b1 <= lim), "npstats.dm: same moment vector under %s" % kind)
    else:
        from vt.props.common import angdiff
        env.claim(angdiff(x, y) < 1e-3, "npstats.dm under %s" % kind, {"base": float(x), "variant": float(y)})


# ---------------------------------------------------------------------------------------
# C boundary: which bytes does the extension read for logical (ifreq, iang)?
# ---------------------------------------------------------------------------------------
def _c_boundary(tier="quick"):
    """Run the real wrappers concretely on layout variants with a recording stand-in for
    specpart.partition, then decide with z3 whether the strides handed over agree with the
    address map of the C code (spec[ifreq*mth + iang], 4-byte floats, from specpart.c)."""
    import wavespectra.partition.partition as PP
    t0 = time.time()
    real = PP.specpart
    seen = []

    class Rec:
        def partition(self, arr, ihmax):
            seen.append(dict(shape=tuple(arr.shape), strides=tuple(arr.strides), dtype=str(arr.dtype), c_contig=bool(arr.flags["C_CONTIGUOUS"])))
            return real.partition(np.ascontiguousarray(arr, dtype=np.float32), ihmax)

    rng = np.random.default_rng(0)
    nf, nd = 5, 6
    f = np.linspace(0.05, 0.4, nf)
    d = np.arange(nd) * 60.0
    base = rng.random((2, nf, nd))
    mk = lambda arr, dims: xr.DataArray(arr, dims=dims, coords={"site": [0, 1], "freq": f, "dir": d}, name="efth")
    wide = rng.random((2, nf, 2 * nd))
    variants = {
        "C-order float64": mk(base.copy(), ("site", "freq", "dir")),
        "C-order float32": mk(base.astype(np.float32), ("site", "freq", "dir")),
        "Fortran-order float64": mk(np.asfortranarray(base), ("site", "freq", "dir")),
        "Fortran-order float32": mk(np.asfortranarray(base.astype(np.float32)), ("site", "freq", "dir")),
        "dir-before-freq float64": mk(np.ascontiguousarray(base.transpose(0, 2, 1)), ("site", "dir", "freq")),
        "dir-before-freq float32": mk(np.ascontiguousarray(base.transpose(0, 2, 1)).astype(np.float32), ("site", "dir", "freq")),
        "site-last float64": mk(np.ascontiguousarray(base.transpose(1, 2, 0)), ("freq", "dir", "site")),
        "site-last float32": mk(np.ascontiguousarray(base.transpose(1, 2, 0)).astype(np.float32), ("freq", "dir", "site")),
        "strided view float32": mk(wide.astype(np.float32)[:, :, ::2], ("site", "freq", "dir")),
        "strided view float64": mk(wide[:, :, ::2], ("site", "freq", "dir")),
    }
    wspd = xr.DataArray([10.0, 12.0], dims=("site",), coords={"site": [0, 1]})
    wdir = xr.DataArray([30.0, 200.0], dims=("site",), coords={"site": [0, 1]})
    dpt = xr.DataArray([50.0, 20.0], dims=("site",), coords={"site": [0, 1]})
    calls = {
        "ptm3": lambda da: da.spec.partition.ptm3(parts=3).values,
        "ptm1": lambda da: da.spec.partition.ptm1(wspd, wdir, dpt, swells=2).values,
        "ptm2": lambda da: da.spec.partition.ptm2(wspd, wdir, dpt, swells=2).values,
    }
    res = {"paths": 0, "decisions": 0, "obligations": 0, "discharged": 0, "trivial": 0, "queries": 0, "solver_time": 0.0, "witness_validated": 0, "inconclusive": [], "spurious": [],
           "violations": [], "engine_errors": [], "samples": [], "stubs": ["specpart.partition recorder (records shape/strides/dtype, then calls the real extension on a packed copy)"], "labels": [], "nontrivial_paths": 0, "budget": None}
    PP.specpart = Rec()
    try:
        for cname, call in calls.items():
            for vname, da in variants.items():
                seen.clear()
                try:
                    call(da)
                except Exception as e:
                    res["engine_errors"].append({"error": "%s on %s raised %s: %s" % (cname, vname, type(e).__name__, str(e)[:200])})
                    continue
                res["paths"] += 1
                for rec in seen:
                    res["obligations"] += 1
                    label = "%s: array handed to the C code is packed C-ordered float32 (%s)" % (cname, vname)
                    res["labels"].append(label)
                    nk, nth = rec["shape"]
                    s0, s1 = rec["strides"]
                    # SMT: exists logical bin (i, j) whose numpy address differs from the address the C code reads
                    i, j, K, T = z3.Ints("i j nk nth")
                    s = z3.Solver()
                    s.set("timeout", 20000)
                    s.add(K == nk, T == nth, K >= 1, K <= 64, T >= 1, T <= 64, 0 <= i, i < K, 0 <= j, j < T)
                    s.add(z3.Or(i * s0 + j * s1 != 4 * (i * T + j), z3.BoolVal(rec["dtype"] != "float32")))
                    tq = time.time()
                    r = s.check()
                    res["queries"] += 1
                    res["solver_time"] += time.time() - tq
                    if r == z3.unsat:
                        res["discharged"] += 1
                    elif r == z3.sat:
                        m = s.model()
                        # replay: does the real extension, fed exactly as the library feeds it, give another map than on a packed copy?
                        PP.specpart = real
                        try:
                            got = call(da)
                        finally:
                            PP.specpart = Rec()
                        ref_da = xr.DataArray(np.ascontiguousarray(da.transpose("site", "freq", "dir").values.astype(np.float64)), dims=("site", "freq", "dir"), coords={"site": [0, 1], "freq": f, "dir": d}, name="efth")
                        PP.specpart = real
                        try:
                            want = call(ref_da)
                        finally:
                            PP.specpart = Rec()
                        differs = not np.allclose(np.asarray(got, dtype=float), np.asarray(want, dtype=float), rtol=1e-5, atol=1e-7)
                        entry = {"kind": "cex", "label": label, "inputs": {"variant": vname, "call": cname, "shape": [nk, nth], "strides": [s0, s1], "dtype": rec["dtype"], "bin": [m[i].as_long(), m[j].as_long()]},
                                 "replay": {"status": "failed" if differs else "ok", "detail": "partitions of the variant differ from those of the packed float64 copy" if differs else "same partitions"}, "trace": ""}
                        (res["violations"] if differs else res["spurious"]).append(entry)
                        res["witness_validated"] += 0
                        break
                    else:
                        res["inconclusive"].append({"label": label, "why": "solver unknown"})
                if seen and len(res["samples"]) < 3:
                    res["samples"].append({"call": cname, "variant": vname, "recorded": seen[0]})
    finally:
        PP.specpart = real
    res["nontrivial_paths"] = res["paths"]
    res["wall_s"] = time.time() - t0
    return res


def _replay_c_boundary(d):
    r = _c_boundary()
    for v in r["violations"]:
        if v["inputs"]["variant"] == d["inputs"]["variant"] and v["inputs"]["call"] == d["inputs"]["call"]:
            return {"status": "failed", "detail": v["replay"]["detail"]}
    return {"status": "ok"}


REGISTRY.setdefault(P, []).append(HarnessInstance(P, _c_boundary, {}, ("quick", "thorough"), {"custom": True, "replay": _replay_c_boundary}))
