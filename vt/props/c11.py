"""C11 Writing a dataset and reading it back returns the same spectra (Engine S with the text-layer contract)."""
import os
import shutil
import tempfile

import numpy as np
import xarray as xr
import z3

from vt.harness import grid, harness
from vt.props.common import AND, NOT, OR, isnan, near, total
from vt.symreal import stubs as ST
from vt.symreal import sym as S
from vt.symreal import textlayer as TL
from vt.symreal.sym import CF, Sym

P = "C11"

META = dict(
    level="model_checking",
    encoded=["output.swan.to_swan", "core.swan.SwanSpecFile (write_header, write_spectra, read, _read_header)", "input.swan.read_swan", "SpecDataset._check_and_stack_dims", "output.ww3.to_ww3 + input.ww3.from_ww3", "output.netcdf.to_netcdf (packing parameters)", "output.funwave.to_funwave/funwave_spectrum + input.funwave.read_funwave (one spectrum, clip=False)"],
    encoded_files=["wavespectra/core/swan.py", "wavespectra/output/swan.py", "wavespectra/input/swan.py", "wavespectra/specdataset.py", "wavespectra/output/ww3.py", "wavespectra/input/ww3.py", "wavespectra/output/netcdf.py", "wavespectra/output/funwave.py", "wavespectra/input/funwave.py"],
    bounds="SWAN ASCII: 1-3 times x (2 stations | 2x3 and 3x2 lat-lon grids) x 2 frequencies x 2-3 directions, every energy density a symbolic real in [0, 100] (plus all-zero and all-missing spectra at chosen positions), plain and .gz files, chunked writing with ntime not dividing the number of times, sorted and unsorted directions; WW3: 2 times x 2 sites, symbolic densities; netCDF: the encoding dictionary the writer really hands to xarray, against the CF packing contract over symbolic values; Funwave: one spectrum of 3 frequencies x 3-4 directions, clip=False, every density symbolic in [0.001, 50] with the peak on the middle frequency (tp must exist)",
    outside="the text of each number (printf/strtod contract stub: a printed-then-parsed number is within half a unit of its last printed digit); gzip, netCDF and JSON libraries; Octopus and JSON writers (the Octopus file is built from two dozen derived statistics per record, JSON is a library serialiser: not encoded); Funwave with clipping or several spectra (zip archive); IEEE rounding",
    assumptions=["energy densities are finite reals in [0, 100]", "coordinates are exactly representable in the printed precision"],
)

T0 = np.datetime64("2020-01-01T00:00:00")


def _times(n):
    return np.array([T0 + np.timedelta64(3 * i, "h") for i in range(n)], dtype="datetime64[ns]")


def _cells(env, name, shape, special):
    """object/float array of symbolic cells in [0,100]; special: {leading index tuple: 'zero' | 'nan'}."""
    arr = env.array(name, shape, lo=0.0, hi=100.0)
    arr = np.array(arr, dtype=object if env.sym else float)
    for idx, kind in special.items():
        if all(i < n for i, n in zip(idx, shape)):
            arr[idx] = (CF(0.0) if env.sym else 0.0) if kind == "zero" else (CF("nan") if env.sym else np.nan)
    return arr


def _swan_modules():
    import wavespectra.core.swan as CS
    return [CS]


def _tol(vmax):
    """resolution of the SWAN block: half a unit of FACTOR = max/9998, plus the 9 digits of FACTOR itself."""
    return 0.5 * vmax / 9998.0 * (1 + 1e-7) + 1e-7 * vmax


LAYOUTS = {
    "stations": dict(kind="site", ns=2),
    "station1": dict(kind="site", ns=1),
    "grid2x3": dict(kind="grid", nlat=2, nlon=3),
    "grid3x2": dict(kind="grid", nlat=3, nlon=2),
    "grid1x2": dict(kind="grid", nlat=1, nlon=2),
}


@harness(P,
         quick=[dict(layout="stations", nt=2, ntime=None, gz=False, special="none", dirs="sorted"), dict(layout="stations", nt=3, ntime=2, gz=True, special="none", dirs="sorted"),
                dict(layout="stations", nt=1, ntime=None, gz=False, special="mixed", dirs="unsorted"), dict(layout="grid2x3", nt=1, ntime=None, gz=False, special="none", dirs="sorted"),
                dict(layout="grid3x2", nt=1, ntime=None, gz=False, special="nan_then_data", dirs="sorted"), dict(layout="stations", nt=2, ntime=1, gz=False, special="data_then_nan", dirs="sorted"),
                dict(layout="station1", nt=1, ntime=None, gz=False, special="none", dirs="rotated3"), dict(layout="station1", nt=2, ntime=None, gz=False, special="none", dirs="rotated3", dimorder="dir_freq"),
                dict(layout="grid2x3", nt=1, ntime=None, gz=False, special="none", dirs="sorted", dimorder="dir_freq")],
         thorough=[dict(layout=l, nt=nt, ntime=k, gz=g, special=sp, dirs=d) for l in ("stations", "grid2x3", "grid3x2", "grid1x2") for nt, k in ((2, None), (3, 2)) for g in (False, True) for sp in ("none", "mixed") for d in ("sorted", "unsorted")],
         max_paths=3000, time_budget=330, hard_timeout=600, time_budget_thorough=2400, hard_timeout_thorough=2700)
def swan_roundtrip(env, layout, nt, ntime, gz, special, dirs, dimorder="freq_dir"):
    """to_swan -> real file -> read_swan: every cell comes back at the position it was written from, within the
    resolution of its FACTOR block; all-zero stays zero, all-missing stays missing; coordinates and times equal."""
    from wavespectra.input.swan import read_swan
    L = LAYOUTS[layout]
    f = np.array([0.1, 0.25])
    d = {"sorted": np.array([0.0, 180.0]), "unsorted": np.array([180.0, 0.0]), "rotated3": np.array([240.0, 0.0, 120.0])}[dirs]
    sp = {}
    if L["kind"] == "site":
        ns = L["ns"]
        if special == "mixed":
            sp = {(0, 0): "zero", (0, 1): "nan"}
        elif special == "data_then_nan":
            sp = {(0, 1): "nan", (1, 1): "nan"}
        elif special == "nan_then_data":
            sp = {(0, 0): "nan"}
        vals = _cells(env, "e", (nt, ns, len(f), len(d)), sp)
        ds = xr.Dataset({"efth": (("time", "site", "freq", "dir"), vals), "lon": (("site",), np.array([150.5, 151.25])[:ns]), "lat": (("site",), np.array([-30.0, -31.5])[:ns])},
                        coords={"time": _times(nt), "site": np.arange(1, ns + 1), "freq": f, "dir": d})
    else:
        nlat, nlon = L["nlat"], L["nlon"]
        if special == "mixed":
            sp = {(0, 0, 0): "zero", (0, nlat - 1, nlon - 1): "nan"}
        elif special == "nan_then_data":
            sp = {(0, 0, 0): "nan"}
        elif special == "data_then_nan":
            sp = {(0, nlat - 1, nlon - 1): "nan"}
        vals = _cells(env, "e", (nt, nlat, nlon, len(f), len(d)), sp)
        ds = xr.Dataset({"efth": (("time", "lat", "lon", "freq", "dir"), vals)},
                        coords={"time": _times(nt), "lat": -30.0 - 1.5 * np.arange(nlat)[::-1], "lon": 150.0 + 0.25 * np.arange(nlon), "freq": f, "dir": d})
    if dimorder == "dir_freq":
        # the caller keeps direction before frequency in memory (labels unchanged)
        ds["efth"] = ds.efth.transpose(*[x for x in ds.efth.dims if x not in ("freq", "dir")], "dir", "freq")
    # which cell holds the block maximum only selects FACTOR; to keep one path per layout it is fixed per
    # position (a different cell at every position), all other cells free below it
    ev = np.asarray(ds.efth.values, dtype=object)
    for n_, pos in enumerate(np.ndindex(*ev.shape[:-2])):
        cells = list(ev[pos].ravel())
        if any(isinstance(c, Sym) for c in cells) or not env.sym:
            k = n_ % len(cells)
            if not any(isnan(c) for c in cells):
                env.assume(AND(cells[k] >= 0.01, *[cells[k] >= c for i_, c in enumerate(cells) if i_ != k]))
    tmp = tempfile.mkdtemp(prefix="vt-c11-", dir=os.environ.get("VT_SCRATCH") or None)
    fn = os.path.join(tmp, "roundtrip.spec" + (".gz" if gz else ""))
    try:
        with env.stubs(lambda: TL.text_layer(*_swan_modules())):
            written = ds
            ds = ds.copy(deep=True)      # the reference is a snapshot taken before writing (a writer that edits its input must not hide behind it)
            written.spec.to_swan(fn, ntime=ntime)
            out = read_swan(fn, as_site=(L["kind"] == "site"))
            o = out.efth
            env.claim(np.array_equal(out.time.values.astype("datetime64[s]"), ds.time.values.astype("datetime64[s]")), "times round-trip", {"got": [str(t) for t in out.time.values]})
            env.claim(np.array_equal(out.freq.values, f), "frequencies round-trip", {"got": out.freq.values.tolist()})
            env.claim(np.array_equal(np.sort(out.dir.values), np.sort(d)), "directions round-trip", {"got": out.dir.values.tolist()})
            if len(out.time) != nt or not np.array_equal(np.sort(out.dir.values), np.sort(d)):
                return
            if L["kind"] == "site":
                env.claim(np.allclose(out.lon.values, ds.lon.values) and np.allclose(out.lat.values, ds.lat.values), "station coordinates round-trip in order")
                o = o.transpose("time", "site", "freq", "dir")
                src = ds.efth.transpose("time", "site", "freq", "dir")
            else:
                env.claim(set(o.dims) >= {"lat", "lon"} and np.allclose(np.sort(out.lat.values), np.sort(ds.lat.values)) and np.allclose(np.sort(out.lon.values), np.sort(ds.lon.values)), "grid coordinates round-trip", {"dims": o.dims})
                if not set(o.dims) >= {"lat", "lon"}:
                    return
                o = o.transpose("time", "lat", "lon", "freq", "dir").sel(lat=ds.lat.values, lon=ds.lon.values)
                src = ds.efth.transpose("time", "lat", "lon", "freq", "dir")
            o = o.sel(dir=d)
            ov, sv = np.asarray(o.values, dtype=object), np.asarray(src.values, dtype=object)
            lead = ov.shape[:-2]
            for pos in np.ndindex(*lead):
                a, b = ov[pos], sv[pos]
                bl = list(b.ravel())
                if all(isnan(x) for x in bl):
                    env.claim(all(isnan(x) for x in a.ravel()), "an all-missing spectrum comes back missing (NODATA)", {"position": list(pos)})
                    continue
                if all((not isinstance(x, Sym)) and float(x) == 0.0 for x in bl):
                    env.claim(all((not isinstance(x, Sym)) and float(x) == 0.0 for x in a.ravel()), "an all-zero spectrum comes back zero (ZERO)", {"position": list(pos)})
                    continue
                al = list(a.ravel())
                if any(isnan(x) for x in al):
                    # a data spectrum may only be written as NODATA/ZERO when it IS all-zero
                    env.claim(AND(*[x == 0 for x in bl]) if env.sym else all(float(x) == 0 for x in bl), "a spectrum with energy is not lost", {"position": list(pos)})
                    continue
                if env.sym:
                    conds = []
                    for x, y in zip(al, bl):
                        dxy = S.toz(x) - S.toz(y)
                        tol = S.toz(_tol(100.0))
                        conds.append(z3.And(dxy <= tol, -dxy <= tol))
                    # sharper: relative to the block's own maximum
                    mx = bl[0]
                    for y in bl[1:]:
                        mx = Sym(z3.If(S.toz(y) >= S.toz(mx), S.toz(y), S.toz(mx)))
                    for x, y in zip(al, bl):
                        dxy = S.toz(x) - S.toz(y)
                        tol = S.toz(0.5 / 9998.0 * (1 + 1e-7) + 1e-7) * S.toz(mx)
                        conds.append(z3.And(dxy <= tol, -dxy <= tol))
                    env.claim(z3.And(*conds), "every energy density comes back at the position it was written from, within half a unit of FACTOR = max/9998", {"position": list(pos)})
                else:
                    mx = max(float(y) for y in bl)
                    env.claim(all(abs(float(x) - float(y)) <= _tol(mx) for x, y in zip(al, bl)), "every energy density comes back at the position it was written from, within half a unit of FACTOR = max/9998",
                              {"position": list(pos), "got": [float(x) for x in al], "want": [float(y) for y in bl]})
    finally:
        shutil.rmtree(tmp, ignore_errors=True)


@harness(P, quick=[{}])
def ww3_roundtrip(env):
    """to_ww3 (dataset captured where it is handed to the netCDF library) -> from_ww3: densities x (180/pi) x (pi/180), directions +180 twice."""
    import wavespectra.output.ww3 as OW
    from wavespectra.input.ww3 import from_ww3
    f = np.array([0.05, 0.1, 0.2])
    d = np.array([90.0, 0.0, 270.0, 180.0])
    vals = env.array("e", (2, 2, len(f), len(d)), lo=0.0, hi=100.0)
    given = vals
    vals = np.array(vals, copy=True)      # reference snapshot; the writer gets its own buffer
    ds = xr.Dataset({"efth": (("time", "site", "freq", "dir"), given), "lon": (("site",), [150.0, 151.0]), "lat": (("site",), [-30.0, -31.0])},
                    coords={"time": _times(2), "site": [1, 2], "freq": f, "dir": d})
    captured = {}
    orig = xr.Dataset.to_netcdf

    def capture(self, *a, **k):
        captured["ds"] = self
    xr.Dataset.to_netcdf = capture
    try:
        ds.spec.to_ww3("/nonexistent/never-written.nc")
    finally:
        xr.Dataset.to_netcdf = orig
    env.claim("ds" in captured, "to_ww3 hands a dataset to the netCDF writer")
    native = captured["ds"]
    env.claim({"station", "frequency", "direction", "efth", "longitude", "latitude"} <= set(native.variables) | set(native.dims), "native WW3 names", {"names": sorted(native.variables)})
    back = from_ww3(native.drop_vars([v for v in ("frequency1", "frequency2") if v in native]))
    o = back.efth.transpose("time", "site", "freq", "dir")
    env.claim(np.allclose(o.freq.values, f) and np.allclose(np.sort(o.dir.values), np.sort(d)), "spectral coordinates round-trip")
    o = o.sel(dir=d)
    env.close(o.values, vals, "WW3 round trip returns the densities (x R2D x D2R) at their own directions", rel=1e-12, abs_=0.0, ctol=1e-9)
    env.claim(np.allclose(back.lon.values, [150.0, 151.0]) and np.allclose(back.lat.values, [-30.0, -31.0]), "site coordinates round-trip")


@harness(P, quick=[{}])
def netcdf_packing(env):
    """the int32 packing the netCDF writer asks for is lossless to half its scale for every density below its range
    and never collides with the fill value."""
    captured = {}
    orig = xr.Dataset.to_netcdf

    def capture(self, *a, **k):
        captured["encoding"] = k.get("encoding")
    f = np.array([0.1, 0.2])
    d = np.array([0.0, 180.0])
    ds = xr.Dataset({"efth": (("freq", "dir"), np.ones((2, 2)))}, coords={"freq": f, "dir": d})
    xr.Dataset.to_netcdf = capture
    try:
        ds.spec.to_netcdf("/nonexistent/never-written.nc")
    finally:
        xr.Dataset.to_netcdf = orig
    enc = (captured.get("encoding") or {}).get("efth", {})
    env.claim(enc.get("dtype") == "int32" and "scale_factor" in enc and "_FillValue" in enc, "packed int32 encoding with scale_factor and _FillValue", {"encoding": str(enc)})
    if "scale_factor" not in enc:
        return
    scale, fill = float(enc["scale_factor"]), float(enc["_FillValue"])
    off = float(enc.get("add_offset", 0.0))
    x = env.real("x", lo=0.0, hi=(2**31 - 2) * scale)
    # CF packing: p = rint((x - off)/scale) stored as int32; unpack = p*scale + off
    q = (x - off) / scale
    if env.sym:
        p = Sym(z3.ToReal(z3.ToInt(S.toz(q) + S.toz(0.5))))
    else:
        p = float(np.rint(q))
    back = p * scale + off
    env.claim(AND(p >= -(2**31), p <= 2**31 - 1), "packed value fits int32 over the whole stated range")
    env.claim(p != fill, "a valid density never collides with the fill value")
    env.claim(AND(back - x <= 0.5 * scale * (1 + 1e-9), x - back <= 0.5 * scale * (1 + 1e-9)), "unpack(pack(x)) within half the scale factor")


@harness(P, quick=[dict(dirs=(0.0, 90.0, 180.0, 270.0)), dict(dirs=(30.0, 150.0, 270.0))], thorough=[dict(dirs=(45.0, 135.0, 225.0, 315.0)), dict(dirs=(350.0, 80.0, 170.0, 260.0))], max_paths=2000, time_budget=400)
def funwave_roundtrip(env, dirs):
    """to_funwave(clip=False) -> real file -> read_funwave for ONE spectrum: amplitude a = sqrt(8 E df dd)/2 printed with
    %12.8f and squared back: every bin returns at its own frequency and direction within the format's resolution."""
    import wavespectra.output.funwave as OF
    import wavespectra.input.funwave as IF
    f = np.array([0.1, 0.2, 0.3])
    d = np.array(dirs)
    vals = env.array("e", (len(f), len(d)), lo=0.0, hi=50.0)
    env.assume(AND(*[v >= 0.001 for v in vals.ravel()]))
    given = vals
    vals = np.array(vals, copy=True)      # reference snapshot; the writer gets its own buffer
    # tp needs an interior peak: make the middle frequency the largest in the direction-integrated spectrum
    e1 = [sum(vals[i, :]) for i in range(len(f))]
    env.assume(AND(e1[1] > e1[0], e1[1] > e1[2]))
    ds = xr.Dataset({"efth": (("freq", "dir"), given)}, coords={"freq": f, "dir": d})
    tmp = tempfile.mkdtemp(prefix="vt-c11-", dir=os.environ.get("VT_SCRATCH") or None)
    fn = os.path.join(tmp, "spectrum.txt")
    try:
        with env.stubs(*ST.peak_stubs(), lambda: ST.float_identity(OF), lambda: TL.text_layer(OF, IF)), env.lazy_sqrt():
            ds.spec.to_funwave(fn, clip=False)
            out = IF.read_funwave(fn)
            o = out.efth.transpose("freq", "dir")
            env.claim(np.allclose(o.freq.values, f), "frequencies round-trip", {"got": o.freq.values.tolist()})
            env.claim(np.allclose(np.sort(o.dir.values % 360), np.sort(d % 360)), "directions round-trip (modulo 360)", {"got": o.dir.values.tolist()})
            if not np.allclose(np.sort(o.dir.values % 360), np.sort(d % 360)):
                return
            df = np.gradient(f)
            dd = 360.0 / len(d)
            conds = []
            for j, dj in enumerate(d):
                jo = int(np.argmin(np.abs(((o.dir.values - dj + 180) % 360) - 180)))
                for i in range(len(f)):
                    got = env.resolve(o.values[i, jo])
                    if isnan(got):
                        conds.append(False)
                        continue
                    # a' within 0.5e-8 of a = sqrt(2 E df dd); E' = a'^2 / (2 df dd)  =>  |E' - E| <= (2 a eps + eps^2)/(2 df dd)
                    e = vals[i, j]
                    k = 2 * df[i] * dd
                    eps = 0.5e-8 * (1 + 1e-6)
                    amax = float(np.sqrt(k * 50.0))
                    tol = (2 * amax * eps + eps * eps) / k + 1e-12
                    conds.append(AND(got - e <= tol, e - got <= tol))
            env.claim(AND(*conds), "every energy density returns at its own frequency and direction within the resolution of %12.8f amplitudes")
    finally:
        shutil.rmtree(tmp, ignore_errors=True)
