"""C06 Each spectrum in a dataset is processed independently of the others (Engine S, relational)."""
import itertools

import numpy as np
import xarray as xr
import z3

from vt.harness import grid, harness
from vt.props import ops as O
from vt.props.common import isnan, mk_spec, total
from vt.symreal import sym as S
from vt.symreal.sym import Sym, SymBool

P = "C06"

META = dict(
    level="model_checking",
    encoded=["SpecArray statistics/transforms listed in vt/props/ops.py", "Partition.ptm4/ptm5/bbox", "SpecDataset._wrapper", "xrstats.* (peak statistics through the composition stubs)"],
    encoded_files=["wavespectra/specarray.py", "wavespectra/specdataset.py", "wavespectra/core/xrstats.py", "wavespectra/core/utils.py", "wavespectra/partition/partition.py"],
    bounds="batched datasets with one or two leading dims of size 2 (site; time x site; lat x lon) over grid G1 / P4; every position holds independent symbolic spectra (and its own symbolic wind speed, its own wind direction and depth from fixed lists); operations: the catalogue in vt/props/ops.py",
    outside="hmax (excluded by the property); the real apply_ufunc vectorisation of the peak statistics (reference loop stub; its plumbing is exercised by the concrete replays); watershed partitions through the C extension (see C03/C05); IEEE rounding",
    assumptions=["spectrum bins are finite reals >= 0"],
)

WDIR = [0.0, 47.0, 200.0, 310.0]
DPT = [500.0, 40.0, 12.0, 90.0]


def _names(ctx, x):
    """names of the input variables a (possibly symbolic) element depends on."""
    if isinstance(x, Sym):
        ids = ctx.vars_of(x.e)
    elif isinstance(x, SymBool):
        ids = ctx.vars_of(x.e)
    else:
        return set()
    return ids


@harness(P,
         quick=grid(op=O.CHEAP + O.ROOTS + O.TRANSFORMS + O.PARTS, g=["G1"], lead=[(("site", 2),)]) + grid(op=O.PEAKS, g=["P4"], lead=[(("site", 2),)]),
         thorough=grid(op=O.CHEAP + O.ROOTS + ["smooth", "split", "ptm4", "bbox"], g=["G2"], lead=[(("time", 2), ("site", 2)), (("lat", 2), ("lon", 2))]) + grid(op=O.PEAKS + O.PEAKS_SLOW, g=["P4"], lead=[(("time", 2),)]),
         max_paths=4000)
def independent(env, op, g, lead):
    """op(batch)[p] == op(batch[p] extracted on its own), and depends on no variable of another position."""
    from vt.props.c02 import PG
    if g in PG:
        da, vals = mk_spec(env, (np.array(PG[g]["freq"]), np.array(PG[g]["dir"])), lead=lead)
    else:
        da, vals = mk_spec(env, g, lead=lead)
    lead_dims = [n for n, _ in lead]
    poss = list(itertools.product(*[range(k) for _, k in lead]))
    for pos in poss:
        env.assume(total(vals[pos]) > 0)
    aux = aux_of = None
    if O.OPS[op].get("wind"):
        shape = tuple(k for _, k in lead)
        ws = np.empty(shape, dtype=object if env.sym else float)
        for n, pos in enumerate(poss):
            ws[pos] = env.real("wspd_" + "_".join(map(str, pos)), lo=0.0, hi=60.0)
        coords = {n: da[n] for n in lead_dims}
        mk = lambda arr: xr.DataArray(arr, dims=lead_dims, coords=coords)
        wd = np.array([WDIR[i % 4] for i in range(len(poss))]).reshape(shape)
        dp = np.array([DPT[i % 4] for i in range(len(poss))]).reshape(shape)
        aux = dict(wspd=mk(ws), wdir=mk(wd), dpt=mk(dp))
        aux_of = lambda pos: dict(wspd=ws[pos], wdir=float(wd[pos]), dpt=float(dp[pos]))
    batched = O.as_dataset(O.run(env, op, da, aux))
    own = {}
    if env.sym:
        for pos in poss:
            ids = set()
            for v in vals[pos].ravel():
                ids |= S.ctx().vars_of(v.e)
            if aux_of:
                w = aux_of(pos)["wspd"]
                if isinstance(w, Sym):
                    ids |= S.ctx().vars_of(w.e)
            own[pos] = ids
    for pos in poss:
        sel = dict(zip(lead_dims, pos))
        single = O.as_dataset(O.run(env, op, da.isel(sel, drop=True), aux_of(pos) if aux_of else None))
        for var in single.data_vars:
            env.claim(var in batched.data_vars, "same output variables")
            b = batched[var].isel(sel, drop=True)
            s_ = single[var]
            env.claim(set(b.dims) == set(s_.dims) and all(b.sizes[k] == s_.sizes[k] for k in s_.dims), "same dims per position", {"batched": dict(b.sizes), "single": dict(s_.sizes)})
            if set(b.dims) != set(s_.dims):
                continue
            b = b.transpose(*s_.dims)
            for c in s_.dims:
                env.claim(np.array_equal(np.asarray(b[c].values, dtype=float), np.asarray(s_[c].values, dtype=float)), "same coordinates per position")
            env.close(b.values, s_.values, "%s: batched result at a position equals the result for the extracted spectrum" % op, rel=1e-12, abs_=0.0, ctol=1e-6, catol=1e-12)
            if env.sym:
                foreign = set()
                for x in np.asarray(b.values, dtype=object).ravel():
                    foreign |= (_names(S.ctx(), x) - own[pos])
                # fresh sqrt / uf variables are not inputs: only flag variables of OTHER positions
                other = set().union(*[own[q] for q in poss if q != pos])
                bad = foreign & other
                info = None
                if bad:
                    rev = {v.get_id(): n for n, v in env.vars.items()}
                    info = {"position": list(pos), "foreign_variables": sorted(rev.get(i, str(i)) for i in bad)[:6], "value": str(np.asarray(b.values, dtype=object).ravel()[0])[:300]}
                env.claim(not bad, "%s: result at a position mentions no variable of another position" % op, info)


METHODS = ["hs", "hrms", "tm01", "tm02", "dm", "dspr", "goda", "oned", "momf", "uss", "mss", "smooth", "to_energy"]


@harness(P, quick=grid(g=["G1"], m=METHODS), thorough=grid(g=["G2"], m=METHODS))
def dataset_accessor(env, g, m):
    """ds.spec.<m>() == ds.efth.spec.<m>()."""
    da, vals = mk_spec(env, g, lead=(("site", 2),))
    for p in range(2):
        env.assume(total(vals[p]) > 0)
    ds = da.to_dataset(name="efth")
    a = getattr(ds.spec, m)()
    b = getattr(ds.efth.spec, m)()
    env.claim(tuple(a.dims) == tuple(b.dims), "same dims through the Dataset accessor")
    env.close(a.values, b.values, "Dataset accessor agrees with the efth accessor", rel=0.0, abs_=0.0, ctol=1e-12, catol=0.0)


# shared static buffers / memory layout: the C boundary harness of C05 also decides independence of neighbouring
# positions (a strided per-spectrum slice makes the extension read the other positions' values)
from vt.harness import HarnessInstance, REGISTRY  # noqa: E402
from vt.props.c05 import _c_boundary, _replay_c_boundary  # noqa: E402

REGISTRY.setdefault(P, []).append(HarnessInstance(P, _c_boundary, {}, ("quick", "thorough"), {"custom": True, "replay": _replay_c_boundary}))
