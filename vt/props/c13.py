"""C13 Instrument file readers (partial): reconstruction kernels and the SWAN ASCII numeric path (Engine S)."""
import os
import shutil
import tempfile

import numpy as np
import xarray as xr
import z3

from vt.harness import HarnessInstance, REGISTRY, grid, harness
from vt.props.common import AND, NOT, OR, isnan, near
from vt.symreal import sym as S
from vt.symreal import textlayer as TL
from vt.symreal.sym import CF, Sym

P = "C13"

META = dict(
    level="model_checking",
    encoded=["input.ndbc_ascii.construct_spectra", "input.ndbc._construct_spectra (through from_ndbc)", "construct.direction.cartwright (as used by the Spotter and Datawell readers)", "core.swan.SwanSpecFile.__init__/_read_header/read (FACTOR, ZERO, NODATA, dirmap, E2V, to_nautical)", "input.swan.read_swan"],
    encoded_files=["wavespectra/input/ndbc_ascii.py", "wavespectra/input/ndbc.py", "wavespectra/construct/direction.py", "wavespectra/core/swan.py", "wavespectra/input/swan.py", "wavespectra/core/utils.py"],
    bounds="NDBC reconstruction: 1-2 records x 2-3 frequencies x uniform full-circle direction grids of 4-8 bins supplied in ascending, descending, seam-crossing (starting at 180) and shuffled storage order, frequency spectrum, r1, r2, alpha1, alpha2 symbolic; SWAN ASCII files produced by an independent reference encoder: 1-2 times x 1-3 locations x 2 frequencies x 3 directions, FACTOR and every table entry symbolic (they reach the reader as tokens in a real file), ZERO / NODATA / FACTOR blocks in every order, VaDens and EnDens units, NDIR and CDIR direction headers in sorted and unsorted order",
    outside="PARTIAL CLAIM: header, column and time parsing of TRIAXYS, NDBC ASCII, Spotter (CSV/JSON), Datawell SPT, Obscape CSV, WW3 station and XWaves files is NOT encoded (pandas/regex/datetime parsing of whole files realises every symbolic value; symbolic strings of file length are far beyond the reach of the string solvers available here); for those readers only the numerical kernels listed above are claimed",
    assumptions=["directional moments r1, r2 in [0,1], alpha1, alpha2 in [0,360)", "SWAN table entries are finite reals, FACTOR > 0"],
)


def _store(dirs, store):
    """Storage orders of a user-supplied direction grid (`dirs=` of read_ndbc_ascii): the grid is the same set of bins."""
    n = len(dirs)
    if store == "asc":
        return dirs
    if store == "desc":
        return dirs[::-1].copy()
    if store == "seam":       # starts at 180 and runs across 0/360
        return np.roll(dirs, -(n // 2))
    if store == "shuffled":   # evens, then odds
        return np.concatenate([dirs[0::2], dirs[1::2]])
    raise ValueError(store)


@harness(P, quick=grid(nd=[4, 6], nrec=[1], store=["asc", "seam", "shuffled"]) + grid(nd=[4], nrec=[1], store=["desc"]),
         thorough=grid(nd=[5, 8], nrec=[2], store=["asc", "seam", "desc", "shuffled"]), witness_interior=True)
def ndbc_ascii_reconstruction(env, nd, nrec, store="asc"):
    """construct_spectra: the directional spectrum built from E(f), r1, r2, alpha1, alpha2 integrates over direction to E(f)."""
    from wavespectra.input.ndbc_ascii import construct_spectra
    nf = 2
    dt = object if env.sym else float
    shape = (nrec, nf, 1)
    mk = lambda name, lo, hi, **kw: np.array(env.array(name, shape, lo=lo, hi=hi, **kw), dtype=dt)
    ef = mk("ef", 0.0, 100.0)
    a1, a2 = mk("alpha1", 0.0, 360.0), mk("alpha2", 0.0, 360.0)
    r1, r2 = mk("r1", 0.0, 1.0), mk("r2", 0.0, 1.0)
    dirs = _store(np.arange(0.0, 360.0, 360.0 / nd), store)
    S2 = construct_spectra(ef, a1, a2, r1, r2, dirs)
    dd = 360.0 / nd
    conds = []
    for t in range(nrec):
        for i in range(nf):
            tot = sum(S2[t, i, :]) * dd
            if env.sym:
                d = S.toz(tot) - S.toz(ef[t, i, 0])
                tol = S.toz(1e-9) * S.toz(ef[t, i, 0]) * 3
                conds.append(z3.And(d <= tol, -d <= tol))
            else:
                conds.append(abs(float(tot) - float(ef[t, i, 0])) <= 1e-9 * (1 + 3 * float(ef[t, i, 0])))
    env.claim(AND(*conds), "NDBC ASCII: the reconstructed 2-D spectrum integrates over direction to the file's frequency spectrum")


class _Enc:
    """Independent reference encoder of the SWAN ASCII spectral format (SWAN user manual, appendix D)."""

    def __init__(self, tok, sym):
        self.tok, self.sym = tok, sym
        self.lines = []

    def num(self, v, fmt="%.6E"):
        if isinstance(v, Sym):
            return self.tok.new(v, "exact")
        return fmt % float(v)

    def header(self, times, locs, freqs, dirs, dirkind, units):
        L = self.lines
        L.append("SWAN   1                                Swan standard spectral file, version")
        L.append("$   Data produced by the reference encoder of the verification harness")
        L.append("$   Project: test ;  run number: 001")
        if times:
            L.append("TIME                                    time-dependent data")
            L.append("     1                                  time coding option")
        L.append("LONLAT                                  locations in spherical coordinates")
        L.append("%6d                                  number of locations" % len(locs))
        for x, y in locs:
            L.append("%12.6f %12.6f" % (x, y))
        L.append("AFREQ                                   absolute frequencies in Hz")
        L.append("%6d                                  number of frequencies" % len(freqs))
        for f in freqs:
            L.append("%10.4f" % f)
        L.append(("NDIR" if dirkind == "NDIR" else "CDIR") + "                                    spectral directions in degr")
        L.append("%6d                                  number of directions" % len(dirs))
        for d in dirs:
            L.append("%10.4f" % d)
        L.append("QUANT")
        L.append("     1                                  number of quantities in table")
        if units == "VaDens":
            L.append("VaDens                                  variance densities in m2/Hz/degr")
            L.append("m2/Hz/degr                              unit")
        else:
            L.append("EnDens                                  energy densities in J/m2/Hz/degr")
            L.append("J/m2/Hz/degr                            unit")
        L.append("   -0.9900E+02                          exception value")

    def time(self, stamp):
        self.lines.append("%-40sdate and time" % stamp)

    def block(self, kind, factor=None, table=None):
        if kind == "NODATA":
            self.lines.append("NODATA")
        elif kind == "ZERO":
            self.lines.append("ZERO")
        else:
            self.lines.append("FACTOR")
            self.lines.append("    " + self.num(factor))
            for row in table:
                self.lines.append(" ".join("   " + self.num(v, "%6.0f") for v in row))

    def write(self, path):
        with open(path, "w") as f:
            f.write("\n".join(self.lines) + "\n")


class _ExactTokens(TL.Tokens):
    def parse(self, text):
        t = text.strip() if isinstance(text, str) else text
        if isinstance(t, str) and t in self.tab:
            return self.tab[t][0]   # a number in a file is itself: the reader must return exactly what is written
        import builtins
        return builtins.float(text)


BLOCKS = {"data": ["F", "F", "F"], "mixed": ["F", "N", "Z"], "nodata_last": ["Z", "F", "N"], "nodata_first": ["N", "F", "F"]}


@harness(P, quick=[dict(units="VaDens", dirkind="NDIR", dirs="unsorted", blocks="mixed", nt=2), dict(units="EnDens", dirkind="CDIR", dirs="sorted", blocks="nodata_last", nt=1), dict(units="VaDens", dirkind="CDIR", dirs="unsorted", blocks="data", nt=1)],
         thorough=[dict(units=u, dirkind=k, dirs=o, blocks=b, nt=2) for u in ("VaDens", "EnDens") for k in ("NDIR", "CDIR") for o in ("sorted", "unsorted") for b in BLOCKS], max_paths=500)
def swan_numeric_path(env, units, dirkind, dirs, blocks, nt):
    """read_swan on a file from the reference encoder: value = FACTOR x table entry (/ rho g for energy units) at the right
    time, location, frequency and NAUTICAL direction; ZERO -> 0, NODATA -> missing."""
    import wavespectra.core.swan as CS
    from wavespectra.input.swan import read_swan
    freqs = [0.05, 0.1]
    filedirs = [30.0, 150.0, 270.0] if dirs == "sorted" else [270.0, 30.0, 150.0]
    locs = [(150.0, -30.0), (151.5, -30.0), (150.0, -31.25)]
    kinds = BLOCKS[blocks]
    tmp = tempfile.mkdtemp(prefix="vt-c13-", dir=os.environ.get("VT_SCRATCH") or None)
    fn = os.path.join(tmp, "reference.spec")
    tok = _ExactTokens()
    try:
        enc = _Enc(tok, env.sym)
        stamps = ["20200101.%02d0000" % (3 * t) for t in range(nt)]
        enc.header(stamps, locs, freqs, filedirs, dirkind, units)
        written = {}
        for t in range(nt):
            enc.time(stamps[t])
            for l in range(len(locs)):
                k = kinds[(l + t) % len(kinds)]
                if k == "F":
                    fac = env.real("fac_%d_%d" % (t, l), lo=1e-6, hi=10.0)
                    tab = env.array("v_%d_%d" % (t, l), (len(freqs), len(filedirs)), lo=0.0, hi=9999.0)
                    enc.block("FACTOR", fac, tab)
                    written[(t, l)] = ("F", fac, tab)
                else:
                    enc.block("NODATA" if k == "N" else "ZERO")
                    written[(t, l)] = (k, None, None)
        enc.write(fn)
        import contextlib

        @contextlib.contextmanager
        def layer():
            # reuse the numpy part of the text layer (object-aware zeros / isnan), numbers are exact tokens
            with TL.text_layer(CS) as _t:
                CS.float = tok.parse
                yield

        with env.stubs(layer):
            out = read_swan(fn, as_site=True)
        o = out.efth.transpose("time", "site", "freq", "dir")
        naut = [d if dirkind == "NDIR" else (270.0 - d) % 360.0 for d in filedirs]
        env.claim(np.allclose(np.sort(o.dir.values), np.sort(np.array(naut) % 360)), "directions are nautical (CDIR converted with 270 - d), sorted", {"got": o.dir.values.tolist()})
        env.claim(np.allclose(o.freq.values, freqs) and len(o.time) == nt and len(o.site) == len(locs), "times, locations and frequencies as encoded")
        env.claim([str(x)[:13] for x in o.time.values.astype("datetime64[s]")] == ["2020-01-01T%02d" % (3 * t) for t in range(nt)], "timestamps parsed", {"got": [str(x) for x in o.time.values]})
        env.claim(np.allclose(out.lon.values, [x for x, _ in locs]) and np.allclose(out.lat.values, [y for _, y in locs]), "positions as encoded")
        rhog = 1025 * 9.81
        for (t, l), (k, fac, tab) in written.items():
            got = np.asarray(o.isel(time=t, site=l).values, dtype=object)
            if k == "N":
                env.claim(all(isnan(x) for x in got.ravel()), "a NODATA block is returned as missing", {"time": t, "location": l})
            elif k == "Z":
                env.claim(all((not isinstance(x, Sym)) and float(x) == 0 for x in got.ravel()), "a ZERO block is returned as zero", {"time": t, "location": l})
            else:
                conds = []
                for j, dn in enumerate(naut):
                    jo = int(np.argmin(np.abs(o.dir.values - (dn % 360))))
                    for i in range(len(freqs)):
                        ref = fac * tab[i, j] / (rhog if units == "EnDens" else 1.0)
                        conds.append(near(env, got[i, jo], ref, rel=1e-12, abs_=0.0, ctol=1e-9, catol=1e-12))
                env.claim(AND(*conds), "FACTOR x table entry (/ rho g for energy units) at its own frequency and nautical direction", {"time": t, "location": l})
    finally:
        shutil.rmtree(tmp, ignore_errors=True)


# kernels shared with other properties: NDBC netCDF reconstruction (C12) and the Cartwright spreading used by the
# Spotter / Datawell readers (C15)
from vt.props import c12 as _c12  # noqa: E402
from vt.props import c15 as _c15  # noqa: E402

REGISTRY.setdefault(P, []).append(HarnessInstance(P, _c12.ndbc, dict(directional=True, alt=False), ("quick", "thorough"), {}))
REGISTRY.setdefault(P, []).append(HarnessInstance(P, _c12.ndbc, dict(directional=False, alt=True), ("quick", "thorough"), {}))
REGISTRY.setdefault(P, []).append(HarnessInstance(P, _c15.spreading, dict(dg="d4r", kind="scalar"), ("quick", "thorough"), dict(max_paths=3000, time_budget=500)))
REGISTRY.setdefault(P, []).append(HarnessInstance(P, _c15.spreading, dict(dg="d6r", kind="scalar"), ("thorough",), dict(max_paths=3000, time_budget_thorough=2400, hard_timeout_thorough=2700)))
