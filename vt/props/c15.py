"""C15 Constructed parametric spectra have the parameters they were built from (Engine S with UFs for exp / pow / cos)."""
import math

import numpy as np
import xarray as xr
import z3

from vt.harness import grid, harness
from vt.props.common import AND, NOT, OR, isnan, item, near, total
from vt.refs import integrals as I
from vt.symreal import sym as S
from vt.symreal.sym import Sym

P = "C15"

META = dict(
    level="model_checking",
    encoded=["construct.frequency.pierson_moskowitz/jonswap/tma/gaussian", "construct.direction.cartwright/asymmetric", "construct.construct_partition", "utils.scaled", "npstats.jonswap/gaussian"],
    encoded_files=["wavespectra/construct/frequency.py", "wavespectra/construct/direction.py", "wavespectra/construct/__init__.py", "wavespectra/core/utils.py", "wavespectra/core/npstats.py"],
    bounds="frequency grids of 3-5 bins (fmax either side of 0.333 Hz); hs, fp, gamma, alpha, gw symbolic in physical ranges (scalars and 2-element DataArrays); depth from {12, 90, 600, 5000} m; full-circle direction grids of 4-6 bins stored sorted and rolled (seam between the first two stored bins); mean direction symbolic anywhere on the circle, spread symbolic in [5, 80] degrees",
    outside="exp, x**y, cos of symbolic arguments are uninterpreted functions with positivity/range axioms only: what is proven is the scaling/normalisation algebra for EVERY positive shape value, not the shape formula's numerical values (those are exercised by the float replays); measured dm/dspr of the constructed 2-D spectrum equal the requested ones only in the continuum limit - not claimed; IEEE rounding",
    assumptions=["hs > 0, fp inside the frequency grid, gamma >= 1, spread in [5, 80] degrees"],
)

FG = {"f3": [0.05, 0.1, 0.2], "f4": [0.05, 0.1, 0.2, 0.4], "f5": [0.04, 0.08, 0.12, 0.2, 0.3]}
DG = {"d4": [0.0, 90.0, 180.0, 270.0], "d4r": [315.0, 45.0, 135.0, 225.0], "d6r": [330.0, 30.0, 90.0, 150.0, 210.0, 270.0], "d5": [0.0, 72.0, 144.0, 216.0, 288.0]}


def _freq(name):
    f = np.array(FG[name])
    return xr.DataArray(f, dims=("freq",), coords={"freq": f}, name="freq")


def _dir(name):
    d = np.array(DG[name])
    return xr.DataArray(d, dims=("dir",), coords={"dir": d}, name="dir")


def _hs2(vals, f):
    """16*(sum E df + tail) for a 1-D spectrum."""
    E = [[v] for v in vals]
    return I.hs2(E, np.array(f), np.array([0.0]))


@harness(P, quick=grid(shape=["pierson_moskowitz"], fg=["f3", "f4"]) + grid(shape=["gaussian"], fg=["f3"]),
         thorough=grid(shape=["pierson_moskowitz", "jonswap", "gaussian"], fg=["f5"]) + grid(shape=["jonswap"], fg=["f3"]) + grid(shape=["jonswap", "gaussian"], fg=["f4"]) + grid(shape=["tma"], fg=["f3", "f4"], dep=[12.0, 90.0, 600.0, 5000.0]), max_paths=400, time_budget=200, hard_timeout=420, obl_timeout=10000, obl_timeout_thorough=60000, time_budget_thorough=1500, hard_timeout_thorough=1800)
def height(env, shape, fg, dep=None):
    """a spectrum built with a requested Hs has exactly that Hs (accessor's definition) and is non-negative."""
    from wavespectra.construct import frequency as FR
    freq = _freq(fg)
    f = freq.values
    hs = env.real("hs", lo=0.1, hi=15.0)
    fp = env.real("fp", lo=float(f[0]) + 1e-3, hi=float(f[-1]) - 1e-3)
    with env.lazy_sqrt():
        if shape == "pierson_moskowitz":
            out = FR.pierson_moskowitz(freq, fp=fp, hs=hs)
        elif shape == "jonswap":
            gamma = env.real("gamma", lo=1.0, hi=7.0)
            out = FR.jonswap(freq, fp=fp, gamma=gamma, hs=hs)
        elif shape == "tma":
            gamma = env.real("gamma", lo=1.0, hi=7.0)
            out = FR.tma(freq, fp=fp, dep=dep, gamma=gamma, hs=hs)
        else:
            gw = env.real("gw", lo=0.005, hi=0.1)
            out = FR.gaussian(freq, hs=hs, fp=fp, gw=gw)
    vals = [env.resolve(v) for v in out.values]
    env.claim(not any(isnan(v) for v in vals), "%s: finite for physical parameters" % shape, {"nan_bins": [i for i, v in enumerate(vals) if isnan(v)]})
    if any(isnan(v) for v in vals):
        return
    env.claim(AND(*[v >= 0 for v in vals]), "%s: non-negative" % shape)
    env.close(_hs2(vals, f), hs * hs, "%s: significant height of the constructed spectrum is the requested one" % shape, rel=1e-9, ctol=1e-6)
    with env.lazy_sqrt():
        measured = env.resolve(item(out.spec.hs()))
    env.close(measured * measured, hs * hs, "%s: accessor hs() of the constructed spectrum" % shape, rel=1e-9, ctol=1e-6)


@harness(P, quick=grid(fg=["f3"]), thorough=grid(fg=["f4", "f5"]), max_paths=400, time_budget_thorough=1500, hard_timeout_thorough=1800)
def jonswap_gamma1(env, fg):
    """JONSWAP with gamma = 1 equals Pierson-Moskowitz (unscaled and scaled)."""
    from wavespectra.construct import frequency as FR
    freq = _freq(fg)
    f = freq.values
    fp = env.real("fp", lo=float(f[0]) + 1e-3, hi=float(f[-1]) - 1e-3)
    alpha = env.real("alpha", lo=0.001, hi=0.05)
    a = FR.jonswap(freq, fp=fp, alpha=alpha, gamma=1.0)
    b = FR.pierson_moskowitz(freq, fp=fp, alpha=alpha)
    env.close(a.values, b.values, "jonswap(gamma=1) == pierson_moskowitz", rel=1e-12, abs_=0.0, ctol=1e-9)


@harness(P, quick=grid(fg=["f4"], dep=[5000.0]), thorough=grid(fg=["f3", "f5"], dep=[5000.0, 3000.0]))
def tma_deep(env, fg, dep):
    """TMA in deep water equals JONSWAP (depth concrete, so the depth factor is evaluated in real floats)."""
    from wavespectra.construct import frequency as FR
    freq = _freq(fg)
    f = freq.values
    fp = env.real("fp", lo=float(f[0]) + 1e-3, hi=float(f[-1]) - 1e-3)
    gamma = env.real("gamma", lo=1.0, hi=7.0)
    a = FR.tma(freq, fp=fp, dep=dep, gamma=gamma)
    b = FR.jonswap(freq, fp=fp, gamma=gamma)
    av = [env.resolve(v) for v in a.values]
    env.claim(not any(isnan(v) for v in av), "tma: finite in deep water", {"nan_bins": [i for i, v in enumerate(av) if isnan(v)]})
    if not any(isnan(v) for v in av):
        env.close(av, b.values, "tma(deep water) == jonswap", rel=1e-6, abs_=0.0, ctol=1e-5)


@harness(P, quick=grid(dg=["d4", "d4r"], kind=["scalar"]), thorough=grid(dg=["d6r", "d5"], kind=["scalar"]) + grid(dg=["d4r"], kind=["array"]), max_paths=3000, time_budget=300, hard_timeout=600, obl_timeout=30000, time_budget_thorough=2400, hard_timeout_thorough=2700)
def spreading(env, dg, kind):
    """cartwright: non-negative and integrates to one over the circle, for every mean direction and spread."""
    from wavespectra.construct import direction as DR
    dirs = _dir(dg)
    n = dirs.size
    if kind == "scalar":
        dm = env.real("dm", lo=0.0, hi=360.0, hi_strict=True)
        dspr = env.real("dspr", lo=5.0, hi=80.0)
    else:
        dt = object if env.sym else float
        dm = xr.DataArray(np.array([env.real("dm%d" % i, lo=0.0, hi=360.0, hi_strict=True) for i in range(2)], dtype=dt), dims=("freq",), coords={"freq": [0.1, 0.2]})
        dspr = xr.DataArray(np.array([env.real("dspr%d" % i, lo=5.0, hi=80.0) for i in range(2)], dtype=dt), dims=("freq",), coords={"freq": [0.1, 0.2]})
    # a mean direction exactly opposite to a grid direction puts a zero of cos^2s on that bin (boundary of the
    # wrap rule): excluded with a margin of 1e-6 degrees so that the statement is about regular points
    for dmv in ([dm] if kind == "scalar" else list(dm.values)):
        for di in dirs.values:
            t = (dmv - float(di)) % 360
            env.assume(OR(t <= 180 - 1e-6, t >= 180 + 1e-6))
    g = DR.cartwright(dirs, dm, dspr)
    g = g.transpose(..., "dir")
    vals = np.asarray(g.values, dtype=object)
    flat = list(vals.ravel())
    if any(isnan(v) for v in flat):
        env.claim(False, "spreading function is finite", {"n_nan": sum(isnan(v) for v in flat)})
        return
    env.claim(AND(*[v >= 0 for v in flat]), "spreading function is non-negative")
    dd = 360.0 / n
    rows = vals.reshape(-1, n)
    for r in rows:
        env.close(sum(r) * dd, 1.0, "spreading function integrates to one over the circle", rel=1e-9, ctol=1e-9)


@harness(P, quick=grid(dg=["d4r"], fg=["f3"]), thorough=grid(dg=["d6r", "d4"], fg=["f4"]), max_paths=3000, time_budget=240, hard_timeout=420, obl_timeout=12000, obl_timeout_thorough=60000)
def partition_1d(env, dg, fg):
    """construct_partition: shape x spreading integrates over direction back to the 1-D shape."""
    from wavespectra.construct import construct_partition
    freq, dirs = _freq(fg), _dir(dg)
    f = freq.values
    hs = env.real("hs", lo=0.1, hi=15.0)
    fp = env.real("fp", lo=float(f[0]) + 1e-3, hi=float(f[-1]) - 1e-3)
    dm = env.real("dm", lo=0.0, hi=360.0, hi_strict=True)
    dspr = env.real("dspr", lo=5.0, hi=80.0)
    for di in dirs.values:
        t = (dm - float(di)) % 360
        env.assume(OR(t <= 180 - 1e-6, t >= 180 + 1e-6))
    with env.lazy_sqrt():
        e2 = construct_partition("pierson_moskowitz", "cartwright", {"freq": freq, "hs": hs, "fp": fp}, {"dir": dirs, "dm": dm, "dspr": dspr})
        from wavespectra.construct import frequency as FR
        e1 = FR.pierson_moskowitz(freq, fp=fp, hs=hs)
    e2 = e2.transpose("freq", "dir")
    dd = 360.0 / dirs.size
    one = [env.resolve(sum(e2.values[i, :]) * dd) for i in range(len(f))]
    ref = [env.resolve(v) for v in e1.values]
    if any(isnan(v) for v in one + ref):
        env.claim(False, "constructed spectra are finite")
        return
    env.close(one, ref, "2-D spectrum integrates over direction to its 1-D shape", rel=1e-9, ctol=1e-7)
    got = e2.spec.oned().values
    env.close([env.resolve(v) for v in got], ref, "accessor oned() of the constructed spectrum equals the 1-D shape", rel=1e-9, ctol=1e-7)
