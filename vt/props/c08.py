"""C08 Regridding is exact on grid nodes, conserves variance and respects the circle (Engine S + interp contract)."""
import math

import numpy as np
import xarray as xr
import z3

from vt.harness import grid, harness
from vt.props.common import AND, NOT, OR, isnan, item, mk_spec, near, rows, total
from vt.refs import integrals as I
from vt.symreal import stubs as ST
from vt.symreal import sym as S
from vt.symreal.sym import Sym

P = "C08"

META = dict(
    level="model_checking",
    encoded=["utils.regrid_spec", "utils.unique_indices", "SpecArray.interp/interp_like/rotate"],
    encoded_files=["wavespectra/core/utils.py", "wavespectra/specarray.py"],
    bounds="source grids: 3-4 frequencies x 4-6 full-circle directions, stored sorted / unsorted / with a duplicated 0-360 bin; target grids: identical, coarser, finer, shifted, extending below the lowest and above the highest source frequency, targets on the 0/360 seam; rotation angles {k*dd, 360, -dd, half a bin, 97.3, -26.5}; data: arbitrary reals >= 0",
    outside="the interpolation routine inside xarray/scipy (replaced by the 1-D linear contract stub, which is differential-tested against the real DataArray.interp at the start of every run); cubic/nearest methods; IEEE rounding",
    assumptions=["spectrum bins are finite reals >= 0", "stub: interp contract (1-D linear, NaN or fill_value outside, exact on nodes)", "stub: chunk identity"],
)

SRC = {
    "s4": dict(freq=[0.05, 0.1, 0.2, 0.4], dir=[0.0, 90.0, 180.0, 270.0]),
    "u4": dict(freq=[0.05, 0.1, 0.2], dir=[180.0, 270.0, 0.0, 90.0]),
    "o6": dict(freq=[0.08, 0.12, 0.3], dir=[15.0, 75.0, 135.0, 195.0, 255.0, 315.0]),
    "dup": dict(freq=[0.1, 0.2, 0.3], dir=[0.0, 90.0, 180.0, 270.0, 360.0]),
    "desc4": dict(freq=[0.05, 0.1, 0.2], dir=[270.0, 180.0, 90.0, 0.0]),          # stored in descending order
    "int4": dict(freq=[0.05, 0.1, 0.2], dir=[0, 90, 180, 270]),                       # integer direction coordinate
}
TGT = {
    "same": None,
    "fine_dir": dict(dir=[0.0, 45.0, 90.0, 135.0, 180.0, 225.0, 270.0, 315.0]),
    "seam_dir": dict(dir=[350.0, 10.0, 100.0, 355.0]),
    "coarse_dir": dict(dir=[0.0, 180.0]),
    "shift_dir": dict(dir=[30.0, 120.0, 210.0, 300.0]),
    "fine_freq": dict(freq=[0.05, 0.075, 0.1, 0.15, 0.2]),
    "ext_freq": dict(freq=[0.02, 0.05, 0.1, 0.2, 0.45, 0.6]),
    "both": dict(freq=[0.03, 0.1, 0.15, 0.5], dir=[355.0, 5.0, 95.0, 185.0, 275.0]),
    "frac_dir": dict(dir=[7.5, 22.5, 100.25, 359.5]),
    "frac_both": dict(freq=[0.0625, 0.11], dir=[7.5, 200.75]),
}


def _src(env, name):
    g = SRC[name]
    f, d = np.array(g["freq"]), np.array(g["dir"])
    da, vals = mk_spec(env, (f, d))
    if d.dtype.kind in "iu":
        da = da.assign_coords(dir=d)      # keep the integer dtype of the coordinate
        d = d.astype(float)
    if name == "dup":
        # a duplicated 0/360 bin carries the same data
        vals[:, 4] = vals[:, 0]
        da = xr.DataArray(vals, dims=da.dims, coords=da.coords, name="efth")
    return da, vals, f, d


def _ref_regrid(vals, f, d, tf, td):
    """Reference: periodic linear interpolation in direction, then linear in frequency with a
    zero anchor at f=0 and zero above the highest source frequency. Returns rows [ntf][ntd]."""
    dm = np.array(d) % 360.0
    uniq, idx = np.unique(dm, return_index=True)
    cols = [vals[:, int(j)] for j in idx]  # sorted by direction, duplicates removed
    n = len(uniq)
    if td is None:
        td_eff = list(d)
        dcols = [vals[:, j] for j in range(len(d))]
    else:
        td_eff = list(td)
        dcols = []
        for t in td_eff:
            t = float(t)
            # the implementation interpolates at the requested value on the wrapped axis
            # [last-360, sorted dirs, first+360]; coordinates are kept as requested
            ext_x = [uniq[-1] - 360.0] + list(uniq) + [uniq[0] + 360.0]
            ext_c = [cols[-1]] + cols + [cols[0]]
            if t < ext_x[0] or t > ext_x[-1]:
                dcols.append(np.array([float("nan")] * len(f), dtype=object))
                continue
            k = int(np.searchsorted(ext_x, t, side="left"))
            if ext_x[k] == t:
                dcols.append(ext_c[k])
            else:
                w = (t - ext_x[k - 1]) / (ext_x[k] - ext_x[k - 1])
                dcols.append(ext_c[k - 1] + w * (ext_c[k] - ext_c[k - 1]))
    if tf is None:
        return [[dcols[j][i] for j in range(len(td_eff))] for i in range(len(f))]
    fx = list(f)
    out = []
    for t in tf:
        t = float(t)
        row = []
        for col in dcols:
            if t > fx[-1]:
                row.append(0.0)
            elif t < fx[0]:
                row.append(col[0] * (t / fx[0]))
            else:
                k = int(np.searchsorted(fx, t, side="left"))
                if fx[k] == t:
                    row.append(col[k])
                else:
                    w = (t - fx[k - 1]) / (fx[k] - fx[k - 1])
                    row.append(col[k - 1] + w * (col[k] - col[k - 1]))
        out.append(row)
    return out


def _targets(name, f, d):
    if name == "near":
        # a target that differs from the source only in the 8th digit (float32 round trip / 1e-6 deg)
        return np.float32(f).astype(np.float64), np.array(d) + 1e-6
    t = TGT[name]
    if t is None:
        return np.array(f), np.array(d)
    return (np.array(t["freq"]) if "freq" in t else None), (np.array(t["dir"]) if "dir" in t else None)


QUICK = [dict(src="s4", tgt=t, m0=False) for t in ("same", "near", "fine_dir", "seam_dir", "ext_freq", "both")] + [dict(src="o6", tgt="near", m0=True)] + \
        [dict(src="u4", tgt=t, m0=False) for t in ("same", "seam_dir", "shift_dir")] + \
        [dict(src="dup", tgt=t, m0=False) for t in ("fine_dir", "seam_dir")] + \
        [dict(src="int4", tgt=t, m0=False) for t in ("frac_dir", "frac_both")] + [dict(src="desc4", tgt="frac_dir", m0=False)] + \
        [dict(src="s4", tgt="both", m0=True), dict(src="u4", tgt="fine_freq", m0=True), dict(src="o6", tgt="coarse_dir", m0=True), dict(src="s4", tgt="same", m0=True)]
THOROUGH = [dict(src=s, tgt=t, m0=m) for s in ("o6", "u4", "dup") for t in ("same", "fine_dir", "coarse_dir", "shift_dir", "fine_freq", "ext_freq", "both") for m in (False, True)]
THOROUGH = [p for p in THOROUGH if p not in QUICK]


@harness(P, quick=QUICK, thorough=THOROUGH)
def regrid(env, src, tgt, m0):
    da, vals, f, d = _src(env, src)
    tf, td = _targets(tgt, f, d)
    env.assume(total(vals) > 0)
    with env.stubs(ST.interp_contract, ST.chunk_identity):
        out = da.spec.interp(freq=tf, dir=td, maintain_m0=m0)
    if tgt in ("both", "near") and tf is not None and td is not None:
        # interp_like takes the target basis from another spectrum
        other = xr.DataArray(np.zeros((len(tf), len(td))), dims=("freq", "dir"), coords={"freq": tf, "dir": td}, name="efth")
        with env.stubs(ST.interp_contract, ST.chunk_identity):
            like = da.spec.interp_like(other, maintain_m0=m0)
        env.claim(np.array_equal(like.freq.values, out.freq.values) and np.array_equal(like.dir.values, out.dir.values), "interp_like returns the other spectrum's basis")
        env.close(like.transpose("freq", "dir").values, out.transpose("freq", "dir").values, "interp_like == interp onto the other spectrum's frequencies and directions", rel=0.0, abs_=0.0, ctol=1e-12, catol=0.0)
    out = out.transpose("freq", "dir")
    of = tf if tf is not None else f
    od = td if td is not None else d
    env.claim(np.array_equal(out.freq.values, of), "returned frequencies are exactly the requested ones", {"got": out.freq.values.tolist()})
    env.claim(np.array_equal(out.dir.values, od), "returned directions are exactly the requested ones", {"got": out.dir.values.tolist()})
    if out.shape != (len(of), len(od)):
        return
    ref = _ref_regrid(vals, f, d, tf, td)
    tot = total(vals)
    if not m0:
        env.close(out.values, ref, "periodic-linear in direction, linear in frequency (zero anchor at f=0, zero above fmax)", rel=1e-12, abs_=0.0, scale=tot, ctol=1e-9, catol=1e-12)
        if tgt == "same":
            env.close(out.values, vals, "identity when the target grid equals the source grid", rel=1e-12, abs_=0.0, scale=tot, ctol=1e-9)
    else:
        # out = ref * hs_in^2/hs_ref^2  <=>  out*hs_ref2 == ref*hs_in2 ; and hs(out) = hs(in)
        h_in = I.hs2(rows(vals), f, d)
        h_ref = I.hs2(ref, np.array(of), np.array(od))
        if env.proves(h_ref > 0) if env.sym else float(h_ref) > 0:
            conds = [near(env, out.values[i][j] * h_ref, ref[i][j] * h_in, rel=1e-9, abs_=0.0, ctol=1e-6) for i in range(len(of)) for j in range(len(od))]
            env.claim(AND(*conds), "maintain_m0: the regridded spectrum times hs_in^2/hs_out^2")
            env.close(I.hs2(rows(out.values), np.array(of), np.array(od)), h_in, "maintain_m0: significant height of the source is kept", rel=1e-9, ctol=1e-6)
        else:
            # degenerate: the target grid catches none of the source energy, nothing can be conserved
            env.claim(env.proves(h_ref <= 0) if env.sym else float(h_ref) <= 0, "path condition determines whether any energy reaches the target grid")
            return
    # non-negativity and zero above the highest source frequency
    flat = [x for r in out.values for x in r]
    env.claim(AND(*[(x >= 0) for x in flat if not isnan(x)]), "no negative energy from non-negative input")
    for i, t in enumerate(of):
        if t > f.max():
            env.claim(AND(*[out.values[i][j] == 0 for j in range(len(od))]), "zero energy above the highest source frequency")


ROT = {"s4": [90.0, 180.0, 360.0, -90.0, 45.0, 97.3, -26.5], "u4": [90.0, 360.0, 45.0], "o6": [60.0, 120.0, -60.0, 30.0, 360.0, 97.3], "desc4": [90.0, -90.0, 45.0], "int4": [90.0, 30.0]}


@harness(P, quick=[dict(src=s, angle=a) for s in ("s4", "u4", "desc4", "int4") for a in ROT[s]], thorough=[dict(src="o6", angle=a) for a in ROT["o6"]])
def rotate(env, src, angle):
    """rotate by whole bins == circular shift, by 360 == identity; any angle keeps coordinates, Hs and non-negativity."""
    da, vals, f, d = _src(env, src)
    env.assume(total(vals) > 0)
    with env.stubs(ST.interp_contract, ST.chunk_identity):
        out = da.spec.rotate(angle)
    out = out.transpose("freq", "dir")
    env.claim(np.array_equal(out.dir.values, d) and np.array_equal(out.freq.values, f), "coordinates kept by rotate")
    dd = I.width_d(d)
    tot = total(vals)
    if abs(angle / dd - round(angle / dd)) < 1e-12:
        k = int(round(angle / dd))
        order = np.argsort(d % 360)
        rank = {int(j): r for r, j in enumerate(order)}
        exp = np.empty_like(vals)
        for j in range(len(d)):
            srcj = order[(rank[j] - k) % len(d)]
            exp[:, j] = vals[:, srcj]
        env.close(out.values, exp, "rotation by %d whole bins is a circular shift" % k, rel=1e-9, abs_=0.0, scale=tot, ctol=1e-6)
    h_in = I.hs2(rows(vals), f, d)
    flat = [x for r in out.values for x in r]
    if any(isnan(x) for x in flat):
        env.claim(False, "rotate produced NaN for a spectrum with positive energy")
        return
    env.close(I.hs2(rows(out.values), f, d), h_in, "rotate keeps the significant height", rel=1e-9, ctol=1e-6)
    env.claim(AND(*[(x >= 0) for x in flat]), "rotate keeps energy non-negative")


def _validate_stub(tier="quick"):
    import time
    t0 = time.time()
    n, bad = ST.validate_interp_contract(n=60 if tier == "quick" else 400)
    res = {"paths": 1, "decisions": 0, "obligations": n, "discharged": n - bad, "trivial": 0, "queries": 0, "solver_time": 0.0, "witness_validated": n,
           "inconclusive": [], "spurious": [], "violations": [], "engine_errors": [], "samples": [{"translator_validation": "interp contract stub vs real DataArray.interp on %d random float cases, %d disagreements" % (n, bad)}],
           "stubs": [], "labels": ["interp stub == DataArray.interp"], "nontrivial_paths": 1, "wall_s": time.time() - t0, "budget": None}
    if bad:
        res["engine_errors"].append({"error": "interp contract stub disagrees with real DataArray.interp in %d/%d cases" % (bad, n)})
    return res


from vt.harness import REGISTRY, HarnessInstance  # noqa: E402

REGISTRY.setdefault(P, []).append(HarnessInstance(P, _validate_stub, {}, ("quick", "thorough"), {"custom": True}))
