"""C01 Integrated wave parameters equal their defining spectral integrals (Engine S)."""
import math

import numpy as np
import z3

from vt.harness import grid, harness
from vt.props.common import R2D, angdiff, isnan, item, mk_spec, near, positions, rows, total
from vt.refs import integrals as I
from vt.symreal import sym as S
from vt.symreal.sym import Sym

P = "C01"
QG = ["G1", "G2", "G3"]
TG = ["F1", "D1", "F2", "G5", "G6", "D6", "D8"]

META = dict(
    level="model_checking",
    encoded=["SpecArray.oned/to_energy/hs/hrms/hmax/momf/momd/tm01/tm02/dm/dspr/swe/sw/gw/goda/crsd/uss/uss_x/uss_y/mss/celerity/wavelen",
             "npstats.hs/dm/mom1", "utils.wavenuma/celerity/wavelen"],
    encoded_files=["wavespectra/specarray.py", "wavespectra/core/npstats.py", "wavespectra/core/utils.py"],
    bounds="grids G1,G2,G3 (quick) + F1,D1,F2,G5,G6,D6,D8 (thorough): 1..6 frequencies (log/irregular, fmax either side of 0.333), 1..8 uniform full-circle directions; data: every bin an arbitrary real >= 0; up to one leading dim of size 2; depth symbolic > 0 for the dispersion units",
    outside="IEEE rounding and float32 storage (reals stand in for floats; every counterexample is replayed in floats); grids outside the family; accuracy of the Chen-Thomson approximation against the exact dispersion relation (only 'the code computes that published formula' is claimed)",
    assumptions=["spectrum bins are finite reals >= 0", "positive total energy for ratio statistics", "direction grids are uniform full-circle and stored ascending (storage order is C05)"],
)


def _spec(env, g, lead=()):
    da, vals = mk_spec(env, g, lead=lead)
    return da, vals


def _each(da, vals, lead):
    """Yield (position index tuple, 2-D rows, selector dict)."""
    for pos in positions(lead):
        sel = {n: i for (n, _), i in zip(lead, pos)}
        yield pos, rows(vals[pos]), sel


LEADS = [(), (("site", 2),)]


@harness(P, quick=grid(g=QG + ["PS", "S2W"], lead=[()]) + grid(g=["G3"], lead=[(("site", 2),)]), thorough=grid(g=TG, lead=[()]) + grid(g=["G1"], lead=[(("time", 2),)]))
def heights(env, g, lead):
    """hs, hrms (tail on/off), oned, to_energy against the defining sums."""
    da, vals = _spec(env, g, lead)
    f, d = da.freq.values, da.dir.values
    hs, hs_nt, hrms = da.spec.hs(), da.spec.hs(tail=False), da.spec.hrms()
    one, en = da.spec.oned(), da.spec.to_energy()
    for pos, E, sel in _each(da, vals, lead):
        h = item(hs.isel(sel))
        env.close(h * h, I.hs2(E, f, d), "hs^2=16(m0+tail)")
        h = item(hs_nt.isel(sel))
        env.close(h * h, I.hs2(E, f, d, tail=False), "hs(tail=False)^2=16 m0")
        h = item(hrms.isel(sel))
        env.close(h * h, I.hrms2(E, f, d), "hrms^2=8(m0+tail)")
        env.close(one.isel(sel).values, I.oned(E, d), "oned=sum E dd")
        env.close(en.isel(sel).transpose("freq", "dir").values, I.energy(E, f, d), "to_energy=E df dd")
    env.claim(tuple(hs.dims) == tuple(n for n, _ in lead), "hs dims")
    # 1-D spectrum gives the same frequency-integrated values
    one_hs = one.spec.hs()
    for pos, E, sel in _each(da, vals, lead):
        h = item(one_hs.isel(sel))
        env.close(h * h, I.hs2(E, f, d), "oned().hs^2")


@harness(P, quick=grid(g=QG), thorough=grid(g=TG))
def moments(env, g):
    """momf(n), momd(1), tm01, tm02 and their 1-D twins."""
    da, vals = _spec(env, g)
    f, d = da.freq.values, da.dir.values
    E = rows(vals)
    env.assume(total(vals) > 0)
    for n in (0, 1, 2, 4):
        env.close(item(da.spec.momf(n)), I.momf(E, f, d, n), "momf(%d)" % n)
    ms, mc = da.spec.momd(1)
    rs, rc = I.momd1(E, d)
    env.close(ms.values, rs, "momd(1).sin")
    env.close(mc.values, rc, "momd(1).cos")
    m0, m1, m2 = I.momf(E, f, d, 0), I.momf(E, f, d, 1), I.momf(E, f, d, 2)
    if len(f) > 0:
        t1 = item(da.spec.tm01())
        env.close(t1 * m1, m0, "tm01*m1=m0")
        t2 = item(da.spec.tm02())
        env.close(t2 * t2 * m2, m0, "tm02^2*m2=m0")
        o = da.spec.oned()
        env.close(item(o.spec.tm01()) * m1, m0, "oned().tm01")
        t2 = item(o.spec.tm02())
        env.close(t2 * t2 * m2, m0, "oned().tm02")
        env.close(item(o.spec.momf(1)), m1, "oned().momf(1)")


def _parallel(env, a, b, A, B, tot, label, cmax):
    """(a,b) is a positive multiple of (A,B); tot = sum of all bins, cmax bounds the coefficients."""
    a, b, A, B = (S.toz(x) for x in (a, b, A, B))
    if env.proves(z3.And(a == A, b == B)):
        env.claim(z3.And(a == A, b == B), label)
        return
    lim = S.toz(1e-9 * cmax * cmax) * S.toz(tot) * S.toz(tot)
    cross = a * B - b * A
    big = S.toz(1e-3 * cmax * cmax) * S.toz(tot) * S.toz(tot)
    env.claim(z3.And(cross <= lim, -cross <= lim, a * A + b * B > 0), label, robust=z3.Or(cross > big, -cross > big, a * A + b * B < 0))


def _dm_check(env, out, E, f, d, label, uniform_f):
    """out: implementation's dm. Reference: defining df-weighted moments (A,B) and the
    frequency-unweighted ones (Au,Bu) the library documents in its code."""
    A, B = I.dm_components(E, f, d)
    ms, mc = I.momd1(E, d)
    Au, Bu = sum(ms), sum(mc)
    tot = sum(sum(r) for r in E)
    if env.sym:
        calls = S.ctx().calls["atan2"]
        env.claim(len(calls) >= 1, label + ":uses atan2")
        a, b, t = calls[-1]
        cmax = float(I.width_d(d)) * max(1.0, max(I.widths_f(f)))
        # (b) everything about dm except the frequency weighting
        _parallel(env, a, b, Au, Bu, tot, label + ":atan2 of the direction moments summed over frequency", cmax)
        o = S.toz(out)
        q = (270 - S.fconst(R2D) * t - o) / 360
        env.claim(z3.And(z3.ToReal(z3.ToInt(q)) == q, o >= 0, o < 360), label + ":(270-R2D*atan2) mod 360")
        # (a) the defining integral weights each frequency by its bin width
        _parallel(env, a, b, A, B, tot, label + ":df-weighting of the defining integral", cmax)
    else:
        refu = (270.0 - math.degrees(math.atan2(float(Au), float(Bu)))) % 360.0
        env.claim(angdiff(out, refu) < 1e-3, label + ":atan2 of the direction moments summed over frequency", {"impl": float(out), "ref": refu})
        env.claim(0 <= float(out) < 360, label + ":(270-R2D*atan2) mod 360")
        ref = (270.0 - math.degrees(math.atan2(float(A), float(B)))) % 360.0
        env.claim(angdiff(out, ref) < 1e-3, label + ":df-weighting of the defining integral", {"impl": float(out), "ref": ref})


DMG = ["U4", "G1", "G2", "G3"]


@harness(P, quick=grid(g=DMG), thorough=grid(g=TG[2:]))
def mean_direction(env, g):
    da, vals = _spec(env, g)
    f, d = da.freq.values, da.dir.values
    E = rows(vals)
    A, B = I.dm_components(E, f, d)
    ms, mc = I.momd1(E, d)
    tot = total(vals)
    env.assume(tot > 0)
    env.assume(A * A + B * B > 1e-4 * tot * tot)
    env.assume(sum(ms) * sum(ms) + sum(mc) * sum(mc) > 1e-4 * tot * tot)
    out = item(da.spec.dm())
    _dm_check(env, out, E, f, d, "dm", g == "U4")


@harness(P, quick=grid(g=DMG), thorough=grid(g=TG[2:]))
def np_twins(env, g):
    """npstats.hs (trapezoid, as documented) / mom1 / dm on numpy arrays."""
    from wavespectra.core import npstats
    da, vals = _spec(env, g)
    f, d = da.freq.values, da.dir.values
    E = rows(vals)
    env.assume(total(vals) > 0)
    # hs: trapezoidal rule over frequency of dd*sum_dir, tail 0.25*E[-1]*f[-1] iff f[-1] > 0.333
    e1 = [sum(r) * abs(d[1] - d[0]) for r in E] if len(d) > 1 else [r[0] for r in E]
    tot = sum(0.5 * (f[i + 1] - f[i]) * (e1[i + 1] + e1[i]) for i in range(len(f) - 1))
    if f[-1] > 0.333:
        tot = tot + 0.25 * e1[-1] * f[-1]
    if len(f) > 1:
        h = npstats.hs(vals, f, d)
        env.close(h * h, 16.0 * tot, "npstats.hs^2 (trapezoid+tail)")
        h = npstats.hs(vals, f, d, tail=False)
        env.close(h * h, 16.0 * (tot - (0.25 * e1[-1] * f[-1] if f[-1] > 0.333 else 0)), "npstats.hs(tail=False)^2")
    if len(d) > 1:
        ms, mc = npstats.mom1(vals, d)
        rs, rc = I.momd1(E, d)
        env.close(ms, rs, "npstats.mom1.sin")
        env.close(mc, rc, "npstats.mom1.cos")
        A, B = I.dm_components(E, f, d)
        tot = total(vals)
        env.assume(A * A + B * B > 1e-4 * tot * tot)
        env.assume(sum(rs) * sum(rs) + sum(rc) * sum(rc) > 1e-4 * tot * tot)
        out = npstats.dm(vals, d)
        _dm_check(env, out, E, f, d, "npstats.dm", g == "U4")


@harness(P, quick=grid(g=QG), thorough=grid(g=TG[2:]))
def spread(env, g):
    """dspr^2 = 2 R2D^2 (1 - |m1|/m0) with the df-weighted moments."""
    da, vals = _spec(env, g)
    f, d = da.freq.values, da.dir.values
    E = rows(vals)
    env.assume(total(vals) > 0)
    A, B = I.dm_components(E, f, d)
    m0 = I.momf(E, f, d, 0)
    out = item(da.spec.dspr())
    if env.sym:
        if isnan(out):
            # NaN only when the defining radicand is within rounding slack of zero or below
            r = env.sqrt(A * A + B * B)
            env.claim(1 - r / m0 <= 1e-9, "dspr NaN only at (numerically) zero spread")
            return
        r = env.sqrt(A * A + B * B)
        env.close(out * out, 2 * R2D**2 * (1 - r / m0), "dspr^2", abs_=1e-6)
    else:
        ref2 = 2 * R2D**2 * (1 - math.sqrt(float(A) ** 2 + float(B) ** 2) / float(m0))
        if isnan(out):
            env.claim(ref2 <= 1e-6, "dspr NaN only at (numerically) zero spread", {"ref2": ref2})
        else:
            env.close(out * out, ref2, "dspr^2", ctol=1e-4, catol=1e-3)


@harness(P, quick=grid(g=QG, stat=["goda", "swe", "sw"]) + grid(g=["G2", "U4"], stat=["gw"]), thorough=grid(g=TG[3:], stat=["goda", "swe", "sw"]))
def widths(env, g, stat):
    """swe, sw, gw, goda against their moment formulas."""
    da, vals = _spec(env, g)
    f, d = da.freq.values, da.dir.values
    E = rows(vals)
    env.assume(total(vals) > 0)
    m0, m1, m2, m4 = (I.momf(E, f, d, n) for n in (0, 1, 2, 4))
    hs2 = I.hs2(E, f, d)
    if stat == "goda":
        num, den = I.goda_num_den(E, f, d)
        env.close(item(da.spec.goda()) * den, num, "goda*m0^2=2 sum E^2 f df")
    elif stat == "swe":
        # sqrt(1 - m2^2/(m0 m4)), replaced by 1 below 0.001
        out = item(da.spec.swe())
        ref2 = 1 - m2 * m2 / (m0 * m4)
        if isnan(out):
            env.claim(ref2 < 1e-9, "swe NaN only for a (numerically) negative radicand")
        elif env.sym:
            o = S.toz(out)
            rad = [r for r, y in S.ctx().calls["sqrt"] if isinstance(out, Sym) and y.eq(out.e)]
            if rad:
                # the returned value is a logged square root: compare its radicand (a rational function of the bins,
                # no root involved) with the formula, and the value with the 0.001 floor
                env.claim(o >= S.toz(0.001), "swe below 0.001 is replaced by 1")
                env.close(Sym(rad[0]), ref2, "swe^2 = 1 - m2^2/(m0 m4)", abs_=1e-9)
            else:
                # the value was replaced (by 1): the one logged root is the value that fell below the floor
                roots = S.ctx().calls["sqrt"]
                env.claim(not isinstance(out, Sym) and float(out) == 1.0, "swe replaced by exactly 1")
                if len(roots) == 1:
                    r_, y_ = roots[0]
                    env.close(Sym(r_), ref2, "swe^2 = 1 - m2^2/(m0 m4)", abs_=1e-9)
                    env.claim(S.SymBool(r_ < S.toz(0.001**2 + 1e-9)), "swe replaced by 1 only below the floor of 0.001")
                else:
                    # no root was taken symbolically (radicand folded to a constant or negative): state it on the formula
                    env.claim(S.SymBool(S.toz(ref2) < S.toz(0.001**2 + 1e-9)), "swe replaced by 1 only below the floor of 0.001")
        else:
            env.claim((out >= 0.001 and abs(out * out - ref2) < 1e-5) or (out == 1 and ref2 < 0.001**2 + 1e-6), "swe", {"impl": float(out), "ref2": float(ref2)})
    elif stat == "sw":
        # sqrt(m0 m2 / m1^2 - 1) where hs >= 0.001
        out = item(da.spec.sw())
        ref2 = m0 * m2 / (m1 * m1) - 1
        if isnan(out):
            env.claim((hs2 < 0.001**2 * (1 + 1e-6)) | (ref2 < 1e-9) if env.sym else (hs2 < 0.001**2 * (1 + 1e-6) or ref2 < 1e-6), "sw NaN only for hs<0.001 or a (numerically) negative radicand")
        else:
            env.close(out * out, ref2, "sw^2", abs_=1e-9, ctol=1e-4, catol=1e-6)
    elif stat == "gw":
        # sqrt(m0t/tm02^2 - m0t^2/tm01^2), m0t=(hs/4)^2 ; grids without the tail term (m0t = m0)
        out = item(da.spec.gw())
        m0t = hs2 / 16.0
        ref2 = m0t * m2 / m0 - m0t * m0t * m1 * m1 / (m0 * m0)
        if env.sym:
            # compositional: the radicand in the library's own hs / tm01 / tm02 (each checked against the moments by
            # `heights` and `moments` on the same grids).  The square roots are memoised per radicand, so these are
            # the very terms gw was built from and the comparison is polynomial in them; the fully expanded form in
            # the sixteen bin values is beyond nlsat (inconclusive in every run before this decomposition).
            H_, T1_, T2_ = item(da.spec.hs()), item(da.spec.tm01()), item(da.spec.tm02())
            m0c = (H_ / 4.0) * (H_ / 4.0)
            ref2c = m0c / (T2_ * T2_) - m0c * m0c / (T1_ * T1_)
        if isnan(out):
            env.claim(ref2c < 1e-12 if env.sym else ref2 < 1e-12, "gw NaN only for a negative radicand")
        elif env.sym:
            # structural: gw is a logged square root; its radicand must equal the formula
            rad = [r for r, y in S.ctx().calls["sqrt"] if y.eq(out.e)]
            env.claim(len(rad) == 1, "gw is a square root")
            if rad:
                env.close(Sym(rad[0]), ref2c, "gw^2 = m0/tm02^2 - m0^2/tm01^2 with m0 = (hs/4)^2", abs_=1e-12)
        else:
            env.close(out * out, ref2, "gw^2 = m0/tm02^2 - m0^2/tm01^2 with m0 = (hs/4)^2", abs_=1e-12, ctol=1e-4, catol=1e-9)


def _absle(e, tol):
    t = S.toz(tol)
    return z3.And(e <= t, -e <= t)


@harness(P, quick=grid(g=["G1", "G2"], depth=[None, 12.5]), thorough=grid(g=["G3", "F2", "G6", "D6"], depth=[None, 3.0, 250.0]))
def drift_slope(env, g, depth):
    """uss, uss_x, uss_y, mss, crsd with deep-water and Chen-Thomson wavenumbers."""
    da, vals = _spec(env, g)
    f, d = da.freq.values, da.dir.values
    E = rows(vals)
    if depth is None:
        k = I.wavenum_deep(f)
    else:
        k = [math.sqrt(k0h * k0h * (1 + 1 / (k0h * a))) / depth for k0h, a in I.chen_thomson(f, depth)]
    kw = {} if depth is None else {"depth": depth}
    mag = I.uss(E, f, d, k)
    env.close(item(da.spec.uss(**kw)), mag, "uss")
    env.close(item(da.spec.uss_x(**kw)), I.uss(E, f, d, k, "x"), "uss_x", scale=mag)
    env.close(item(da.spec.uss_y(**kw)), I.uss(E, f, d, k, "y"), "uss_y", scale=mag)
    env.close(item(da.spec.mss(**kw)), I.mss(E, f, d, k), "mss")
    env.close(da.spec.crsd().values, I.crsd(E, d), "crsd", scale=I.oned(E, d))


@harness(P, quick=grid(mode=["f=0.05", "f=0.4", "depth=8.0"]), thorough=grid(mode=["f=0.11", "f=1.0", "depth=0.5", "depth=300.0"]))
def dispersion(env, mode):
    """celerity/wavelen/wavenuma: deep-water rule exact for symbolic f>0; finite depth equals the
    Chen-Thomson form with one of (f, depth) symbolic and the other from a fixed set."""
    from wavespectra.core import utils
    which, val = mode.split("=")
    fq = env.real("f", lo=0.01, hi=2.0) if which == "depth" else float(val)
    dep = env.real("depth", lo=0.1, hi=5000.0) if which == "f" else float(val)
    if which == "depth":
        env.close(utils.celerity(fq) * fq, 1.56, "deep celerity=1.56/f")
        env.close(utils.wavelen(fq) * fq * fq, 1.56, "deep wavelen=1.56/f^2")
    k = utils.wavenuma(fq, dep)
    w = 2 * math.pi * fq
    k0h = 0.10194 * w * w * dep
    a = 1 + 0.6522 * k0h + 0.4622 * k0h**2 + 0.0864 * k0h**4 + 0.0675 * k0h**5
    env.close(k * k * dep * dep * (k0h * a), k0h * k0h * (k0h * a + 1), "wavenuma^2 = Chen-Thomson", rel=1e-9)
    env.claim(k > 0, "wavenuma>0")
    env.close(utils.celerity(fq, dep) * k, w, "celerity*k=omega")
    env.close(utils.wavelen(fq, dep) * k, 2 * math.pi, "wavelen*k=2pi")


@harness(P, quick=grid(g=["G3"]), thorough=grid(g=["G1", "G2"]))
def hmax(env, g):
    """hmax = 1.86 hs without a time axis; sqrt(0.5 ln N) hs, N=round(dt/tm02), with one."""
    da, vals = _spec(env, g)
    f, d = da.freq.values, da.dir.values
    E = rows(vals)
    env.assume(total(vals) > 0)
    out = item(da.spec.hmax())
    env.close(out * out, 1.86**2 * I.hs2(E, f, d), "hmax=1.86 hs (no time axis)")


def _contains(term, sub):
    stack, seen = [term], set()
    while stack:
        x = stack.pop()
        if x.get_id() in seen:
            continue
        seen.add(x.get_id())
        if x.eq(sub):
            return True
        stack.extend(x.children())
    return False


@harness(P, quick=grid(g=["G3"]), thorough=grid(g=["G2"]), max_paths=200)
def hmax_time(env, g):
    """with a time axis: hmax = sqrt(0.5 ln N) hs, N = round(dt / tm02), dt the (constant) step in seconds."""
    lead = (("time", 2),)
    da, vals = mk_spec(env, g, lead=lead)
    f, d = da.freq.values, da.dir.values
    for t in range(2):
        env.assume(total(vals[t]) > 0)
    dt_s = 3 * 3600.0
    out = da.spec.hmax()
    env.claim(tuple(out.dims) == ("time",), "hmax keeps the time dimension")
    if env.sym:
        c = S.ctx()
        for t in range(2):
            E = rows(vals[t])
            o = item(out.isel(time=t))
            if isnan(o):
                env.claim(False, "hmax is defined for a spectrum with energy (N >= 1)", {"time": t})
                continue
            m0, m2 = I.momf(E, f, d, 0), I.momf(E, f, d, 2)
            # structure: o = k * hs, k = sqrt(0.5 * log(N)), N = rint(dt / tm02), tm02 = sqrt(m0/m2)
            ok = False
            for arg, r in c.calls["rint"]:
                # arg must be dt / y with y^2 = m0/m2
                for rad, y in c.calls["sqrt"]:
                    if y.get_id() in c.vars_of(arg) and env.proves(near(env, Sym(rad) * m2, m0, rel=1e-9, abs_=0.0)) and env.proves(near(env, Sym(arg) * Sym(y), dt_s, rel=1e-12, abs_=0.0)):
                        for larg, lt in c.calls["log"]:
                            if larg.eq(r):
                                for rad2, k in c.calls["sqrt"]:
                                    if _contains(rad2, lt) and env.proves(near(env, Sym(rad2), 0.5 * Sym(lt), rel=1e-12, abs_=0.0)):
                                        hs2 = I.hs2(E, f, d)
                                        if env.proves(near(env, o * o, Sym(rad2) * hs2, rel=1e-9, abs_=0.0)):
                                            ok = True
            env.claim(ok, "hmax^2 = 0.5 ln(round(dt/tm02)) hs^2 with tm02^2 = m0/m2 and dt the time step in seconds", {"time": t})
    else:
        for t in range(2):
            E = rows(vals[t])
            m0, m2 = float(I.momf(E, f, d, 0)), float(I.momf(E, f, d, 2))
            hs = math.sqrt(float(I.hs2(E, f, d)))
            n = round(dt_s / math.sqrt(m0 / m2))
            ref = math.sqrt(0.5 * math.log(n)) * hs if n >= 1 else float("nan")
            o = float(item(out.isel(time=t)))
            env.claim((math.isnan(o) and math.isnan(ref)) or abs(o - ref) <= 1e-5 * abs(ref) + 1e-9, "hmax^2 = 0.5 ln(round(dt/tm02)) hs^2 with tm02^2 = m0/m2 and dt the time step in seconds", {"time": t, "impl": o, "ref": ref})
