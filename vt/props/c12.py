"""C12 Model-native datasets are converted with the right units and direction sense (Engine S)."""
import math

import numpy as np
import xarray as xr
import z3

from vt.harness import grid, harness
from vt.props.common import AND, NOT, OR, R2D, D2R, isnan, near, total
from vt.refs import native as N
from vt.symreal import sym as S
from vt.symreal.sym import Sym

P = "C12"

META = dict(
    level="model_checking",
    encoded=["input.ww3.from_ww3", "input.ncswan.from_ncswan", "input.wwm.from_wwm", "input.era5.from_era5", "input.ndbc.from_ndbc/_construct_spectra", "input.dataset.read_dataset", "utils.uv_to_spddir"],
    encoded_files=["wavespectra/input/dataset.py", "wavespectra/input/ww3.py", "wavespectra/input/ncswan.py", "wavespectra/input/wwm.py", "wavespectra/input/era5.py", "wavespectra/input/ndbc.py", "wavespectra/core/utils.py"],
    bounds="in-memory native datasets with symbolic densities: 1-2 times x 2 stations x 3 frequencies x 3-5 directions; direction axes in several orders/offsets (going-to degrees for WW3 incl. odd counts, radians for SWAN/WWM incl. axes reaching past a full turn and descending); lon/lat with and without a time dimension; winds present/absent (u, v symbolic); ERA5 log10 densities symbolic with missing values; NDBC with/without directional moments (alpha1, alpha2, r1, r2 symbolic) and both variable namings",
    outside="opening files (netCDF/zarr libraries); dask-backed inputs; 10**x, cos, sin, atan2 of symbolic arguments are uninterpreted functions (cos/sin with the angle-addition split), so identities beyond congruence and cos^2+sin^2=1 are not available to the solver; IEEE rounding",
    assumptions=["native densities are finite reals >= 0 (log10 densities in [-8, 3] for ERA5)"],
)


def _w(n):
    return 360.0 / n


def _uniq_sorted(d):
    return np.sort(np.unique(np.asarray(d) % 360))


def _circ_width(ddeg):
    from vt.refs.integrals import width_d
    return width_d(list(ddeg))


def _bins(env, out, native, f_out, d_out, f_nat, d_nat_phys, c, label):
    """out[..., i, j] == c * native[..., i', j'] where (f_out[i], d_out[j]) is the converted coordinate of
    the native bin (i', j')."""
    ok_coords = True
    pairs = []
    for i, fo in enumerate(f_out):
        ii = [k for k, fn in enumerate(f_nat) if abs(fn - fo) <= 1e-9 * max(1.0, abs(fn))]
        for j, do in enumerate(d_out):
            jj = [k for k, dn in enumerate(d_nat_phys) if abs(((dn - do + 180) % 360) - 180) <= 1e-6]
            if len(ii) != 1 or len(jj) != 1:
                ok_coords = False
                continue
            pairs.append((i, j, ii[0], jj[0]))
    env.claim(ok_coords and len(pairs) == len(f_nat) * len(d_nat_phys), label + ": every output bin carries the converted coordinates of exactly one native bin",
              {"f_out": list(map(float, f_out)), "d_out": list(map(float, d_out)), "d_native_physical": list(map(float, d_nat_phys))})
    env.claim(all(0 <= float(x) < 360 for x in d_out), label + ": directions in [0, 360)")
    if not pairs:
        return
    a, b = [], []
    for (i, j, ii, jj) in pairs:
        a.append(out[..., i, j])
        b.append(native[..., ii, jj] * c)
    env.close(a, b, label + ": every bin keeps its physical direction and is scaled by the unit factor", rel=1e-12, abs_=0.0, ctol=1e-9)


def _variance(env, out, f, ddeg, native, fnat_w, dnat_w, label, jac=None):
    """sum E_out df dd(deg) == sum E_native w_f w_theta in native units."""
    from vt.refs.integrals import widths_f
    df = widths_f(list(f))
    dd = _circ_width(ddeg)
    tot_out = 0
    tot_nat = 0
    nf, nd = len(f), len(ddeg)
    for i in range(nf):
        for j in range(nd):
            tot_out = tot_out + total(out[..., i, j]) * (df[i] * dd)
    for i in range(native.shape[-2]):
        for j in range(native.shape[-1]):
            w = fnat_w[i] * dnat_w * (jac[i] if jac is not None else 1.0)
            tot_nat = tot_nat + total(native[..., i, j]) * w
    env.close(tot_out, tot_nat, label + ": variance in converted units equals variance in native units", rel=1e-9, ctol=1e-7)


WW3_DIRS = {"even_unsorted": (90.0, 0.0, 270.0, 180.0), "odd5": (0.0, 72.0, 144.0, 216.0, 288.0), "odd3_offset": (250.0, 10.0, 130.0)}


@harness(P, quick=grid(dirs=["even_unsorted", "odd5"], latlon_time=[True], winds=[True]) + grid(dirs=["odd3_offset"], latlon_time=[False], winds=[False]), thorough=grid(dirs=list(WW3_DIRS), latlon_time=[True, False], winds=[True, False]))
def ww3(env, dirs, latlon_time, winds):
    from wavespectra.input.ww3 import from_ww3
    from wavespectra.input.dataset import read_dataset
    ds, info = N.ww3(env, nt=2, ns=2, dirs=WW3_DIRS[dirs], latlon_time=latlon_time, winds=winds)
    out = from_ww3(ds)
    env.claim({"time", "site", "freq", "dir"} <= set(out.efth.dims), "wavespectra dimension names")
    o = out.efth.transpose("time", "site", "freq", "dir")
    phys = (info["d"] + 180.0) % 360.0  # going-to -> coming-from
    _bins(env, o.values, info["e"], o.freq.values, o.dir.values, info["f"], phys, math.pi / 180.0, "ww3")
    from vt.refs.integrals import widths_f
    _variance(env, o.values, o.freq.values, o.dir.values, info["e"], widths_f(list(info["f"])), 2 * math.pi / len(info["d"]), "ww3")
    env.claim("lon" in out and "time" not in out["lon"].dims, "lon/lat do not depend on time")
    first_values = np.array(o.values, copy=True)     # a snapshot: the second result must not be compared with a buffer it may share
    via = read_dataset(ds)
    env.claim(set(via.efth.dims) == set(out.efth.dims), "read_dataset identifies the WW3 layout")
    env.close(via.efth.transpose(*o.dims).values, first_values, "read_dataset == from_ww3 (a second conversion of the same native dataset gives the same spectra)", rel=0.0, abs_=0.0, ctol=1e-12, catol=0.0)
    if winds:
        env.claim("wspd" in out and "wdir" in out and "dpt" in out, "wind and depth variables kept under their standard names")


SW_DIRS = {"deg4": (0.0, 90.0, 180.0, 270.0), "past_turn": (100.0, 190.0, 280.0, 370.0), "desc_offset": (450.0, 330.0, 210.0), "neg": (-170.0, -50.0, 70.0)}


@harness(P, quick=grid(dirs=["deg4", "desc_offset"], winds=[True]) + grid(dirs=["neg"], winds=[False]), thorough=grid(dirs=list(SW_DIRS), winds=[True, False]))
def ncswan(env, dirs, winds):
    from wavespectra.input.ncswan import from_ncswan
    from wavespectra.input.dataset import read_dataset
    dd = SW_DIRS[dirs]
    ds, info = N.ncswan(env, nt=1, ns=2, dirs_deg=dd, winds=winds)
    with env.lazy_sqrt():
        out = from_ncswan(ds)
    o = out.efth.transpose("time", "site", "freq", "dir")
    phys = np.array(dd) % 360.0
    _bins(env, o.values, info["e"], o.freq.values, o.dir.values, info["f"], phys, math.pi / 180.0, "ncswan")
    from vt.refs.integrals import widths_f
    _variance(env, o.values, o.freq.values, o.dir.values, info["e"], widths_f(list(info["f"])), math.radians(_circ_width(phys)), "ncswan")
    first_values = np.array(o.values, copy=True)
    with env.lazy_sqrt():
        via = read_dataset(ds)
    env.close(via.efth.transpose(*o.dims).values, first_values, "read_dataset == from_ncswan (a second conversion of the same native dataset gives the same spectra)", rel=0.0, abs_=0.0, ctol=1e-12, catol=0.0)
    if winds:
        _winds(env, out, info["u"], info["v"], "ncswan")


def _winds(env, out, u, v, label):
    """speed^2 = u^2+v^2; direction = (270 - atan2(v,u) in degrees) mod 360 (coming-from)."""
    spd = out["wspd"].values
    wd = out["wdir"].values
    for idx in np.ndindex(u.shape):
        s_ = env.resolve(spd[idx])
        env.claim(near(env, s_ * s_, u[idx] * u[idx] + v[idx] * v[idx], rel=1e-12, ctol=1e-9), label + ": wind speed^2 = u^2 + v^2")
    if env.sym:
        calls = S.ctx().calls["atan2"]
        env.claim(len(calls) >= u.size, label + ": wind direction uses atan2")
        args = {(a.get_id(), b.get_id()): t for a, b, t in calls}
        for idx in np.ndindex(u.shape):
            key = (S.toz(v[idx]).get_id(), S.toz(u[idx]).get_id())
            env.claim(key in args, label + ": atan2(v, u) of the components")
            if key in args:
                o = S.toz(wd[idx])
                q = (270 - S.fconst(R2D) * args[key] - o) / 360
                env.claim(z3.And(z3.ToReal(z3.ToInt(q)) == q, o >= 0, o < 360), label + ": wind direction = (270 - atan2(v,u)) mod 360, coming-from")
    else:
        for idx in np.ndindex(u.shape):
            if float(u[idx]) ** 2 + float(v[idx]) ** 2 > 1e-12:
                ref = (270.0 - math.degrees(math.atan2(float(v[idx]), float(u[idx])))) % 360.0
                from vt.props.common import angdiff
                env.claim(angdiff(float(wd[idx]), ref) < 1e-6, label + ": wind direction = (270 - atan2(v,u)) mod 360, coming-from", {"got": float(wd[idx]), "ref": ref})


@harness(P, quick=grid(dirs=["deg4", "desc_offset"], winds=[True]) + grid(dirs=["neg"], winds=[False]), thorough=grid(dirs=list(SW_DIRS), winds=[True, False]))
def wwm(env, dirs, winds):
    from wavespectra.input.wwm import from_wwm
    from wavespectra.input.dataset import read_dataset
    dd = SW_DIRS[dirs]
    ds, info = N.wwm(env, nt=1, ns=2, dirs_deg=dd, winds=winds)
    with env.lazy_sqrt():
        out = from_wwm(ds)
    o = out.efth.transpose("time", "site", "freq", "dir")
    phys = np.array(dd) % 360.0
    # E(f,theta_deg) = N(sigma,theta) * sigma * 2pi * pi/180 : one factor per frequency
    nat_scaled = info["e"] * (info["sig"] * 2 * math.pi)[None, None, :, None]
    _bins(env, o.values, nat_scaled, o.freq.values, o.dir.values, info["f"], phys, math.pi / 180.0, "wwm")
    # native variance: sum N * sigma * dsigma * dtheta(rad)
    from vt.refs.integrals import widths_f
    dsig = widths_f(list(info["sig"]))
    _variance(env, o.values, o.freq.values, o.dir.values, info["e"], dsig, math.radians(_circ_width(phys)), "wwm", jac=list(info["sig"]))
    first_values = np.array(o.values, copy=True)
    with env.lazy_sqrt():
        via = read_dataset(ds)
    env.close(via.efth.transpose(*o.dims).values, first_values, "read_dataset == from_wwm (a second conversion of the same native dataset gives the same spectra)", rel=0.0, abs_=0.0, ctol=1e-12, catol=0.0)
    if winds:
        _winds(env, out, info["u"], info["v"], "wwm")


@harness(P, quick=grid(nd=[4], via=["from_era5", "read_dataset"]), thorough=grid(nd=[3, 6], via=["from_era5", "read_dataset"]))
def era5(env, nd, via):
    from wavespectra.input.era5 import from_era5, DEFAULT_FREQS, DEFAULT_DIRS
    from wavespectra.input.dataset import read_dataset
    ds, info = N.era5(env, nd=nd, native_names=(via == "read_dataset"))
    freqs, dirs = list(DEFAULT_FREQS[:3]), list(DEFAULT_DIRS[:nd])
    if via == "read_dataset":
        # the dispatcher must recognise the native ERA5 names (frequency, direction, d2fd)
        out = read_dataset(ds, freqs=freqs, dirs=dirs)
        env.claim("efth" in out and {"freq", "dir"} <= set(out["efth"].dims if "efth" in out else ()), "read_dataset identifies the ERA5 layout and returns efth(freq, dir)", {"variables": sorted(map(str, out.variables))})
        if "efth" not in out or not {"freq", "dir"} <= set(out["efth"].dims):
            return
    else:
        out = from_era5(ds, freqs=freqs, dirs=dirs)
    o = out.efth.transpose("time", "lat", "lon", "freq", "dir")
    env.claim(list(map(float, o.freq.values)) == list(map(float, freqs)) and list(map(float, o.dir.values)) == list(map(float, dirs)), "era5: requested spectral coordinates")
    x = info["x"]
    conds = []
    for idx in np.ndindex(x.shape):
        got = o.values[idx]
        if isnan(x[idx]):
            conds.append(near(env, got, 0.0, rel=0.0, abs_=0.0, ctol=0.0, catol=0.0))
        else:
            ref = _pow10(x[idx]) * (math.pi / 180.0)
            conds.append(near(env, got, ref, rel=1e-12, ctol=1e-9))
    env.claim(AND(*conds), "era5: density = 10**d2fd * pi/180 per degree, missing values -> 0")


def _pow10(x):
    if isinstance(x, Sym):
        return 10 ** x
    return 10.0 ** float(x)


@harness(P, quick=grid(directional=[True, False], alt=[False]), thorough=grid(directional=[True, False], alt=[True]))
def ndbc(env, directional, alt):
    from wavespectra.input.ndbc import from_ndbc
    from wavespectra.input.dataset import read_dataset
    ds, info = N.ndbc(env, nt=1, directional=directional, alt_names=alt)
    dd = 60.0
    out = from_ndbc(ds, directional=True, dd=dd)
    if not alt:
        first_values = np.array(out.efth.values, copy=True)
        via = read_dataset(ds, directional=True, dd=dd)
        env.claim(set(via.efth.dims) == set(out.efth.dims), "read_dataset identifies the NDBC layout")
        env.close(via.efth.transpose(*out.efth.dims).values, first_values, "read_dataset == from_ndbc", rel=0.0, abs_=0.0, ctol=1e-12, catol=0.0)
    ef = info["ef"]
    if not directional:
        env.claim("dir" not in out.efth.dims, "ndbc without directional moments is returned as 1D")
        env.equal(out.efth.transpose("time", "freq").values, ef, "ndbc 1D: the frequency spectrum unchanged")
        return
    o = out.efth.transpose("time", "freq", "dir")
    env.claim(list(map(float, o.dir.values)) == list(np.arange(0, 360, dd)), "ndbc: direction grid 0..360 step dd")
    # integrating the constructed 2D spectrum over direction gives back the 1D spectrum
    conds = []
    for t in range(ef.shape[0]):
        for i in range(ef.shape[1]):
            tot = sum(o.values[t, i, :]) * dd
            scale = ef[t, i] * (1 + info["r1"][t, i] + info["r2"][t, i]) + 1e-30
            conds.append(near(env, tot, ef[t, i], rel=0.0, abs_=0.0, ctol=1e-9, catol=1e-12) if not env.sym else _absnear(tot, ef[t, i], scale))
    env.claim(AND(*conds), "ndbc: the 2D spectrum integrates over direction to the file's 1D spectrum")


def _absnear(a, b, scale, rel=1e-9):
    d = S.toz(a) - S.toz(b)
    tol = S.toz(rel) * S.toz(scale)
    return S.SymBool(z3.And(d <= tol, -d <= tol))


@harness(P, quick=[{}])
def uv_cardinal(env):
    """uv_to_spddir at the four cardinal winds and on symbolic components."""
    from wavespectra.core.utils import uv_to_spddir
    for (u, v), frm in (((0.0, -5.0), 0.0), ((-5.0, 0.0), 90.0), ((0.0, 5.0), 180.0), ((5.0, 0.0), 270.0)):
        spd, d = uv_to_spddir(np.array([u]), np.array([v]), coming_from=True)
        env.claim(abs(float(spd[0]) - 5.0) < 1e-12 and abs(float(d[0]) - frm) < 1e-9, "cardinal wind (u=%g, v=%g) comes from %g" % (u, v, frm), {"got": float(d[0])})
        spd, d = uv_to_spddir(np.array([u]), np.array([v]), coming_from=False)
        env.claim(abs(float(d[0]) - (frm + 180) % 360) < 1e-9, "cardinal wind (u=%g, v=%g) goes to %g" % (u, v, (frm + 180) % 360))
    u = env.real("u", lo=-40.0, hi=40.0)
    v = env.real("v", lo=-40.0, hi=40.0)
    with env.lazy_sqrt():
        spd, d = uv_to_spddir(np.array([u], dtype=object if env.sym else float), np.array([v], dtype=object if env.sym else float), coming_from=True)
    s_ = env.resolve(spd[0])
    env.claim(near(env, s_ * s_, u * u + v * v, rel=1e-12, ctol=1e-9), "speed^2 = u^2 + v^2")
