"""Dual-mode harness environment.

A harness is one Python function `h(env, **params)` that builds its inputs through
`env`, calls the REAL wavespectra code and states claims through `env`.

* mode "sym": inputs are z3 reals inside object arrays; claims become solver
  obligations under the path condition (decided by z3: unsat of the negation).
* mode "concrete": inputs are floats read from a replay/witness file; the same
  harness runs the unpatched public code in ordinary floating point and claims are
  evaluated numerically (used to replay counterexamples and to validate witnesses).
"""
import contextlib
import math
import time

import numpy as np
import z3

from vt.symreal import sym as S
from vt.symreal.sym import CF, Sym, SymBool

OBL_TIMEOUT_MS = 60000
ROBUST_TIMEOUT_MS = 15000


class PreconditionFailed(Exception):
    """Concrete inputs do not satisfy the harness precondition (replay not applicable)."""


def _flat(x):
    """Flatten scalars / ndarrays / DataArrays to a python list of elements."""
    if hasattr(x, "values") and hasattr(x, "dims"):
        x = x.values
    if isinstance(x, np.ndarray):
        return list(x.ravel())
    if isinstance(x, (list, tuple)):
        out = []
        for v in x:
            out.extend(_flat(v))
        return out
    return [x]


def _isnum(x):
    return isinstance(x, (int, float, np.integer, np.floating, np.bool_)) and not isinstance(x, bool) or isinstance(x, bool)


class Env:
    _lemma_cache = {}

    def __init__(self, mode, ctx=None, inputs=None, record=None, opts=None):
        self.mode = mode
        self.sym = mode == "sym"
        self.ctx = ctx
        self.inputs = inputs or {}
        self.vars = {}          # name -> z3 var (sym mode)
        self.varbounds = {}
        self.rec = record       # PathRecord
        self.opts = opts or {}
        self.failed = []        # concrete mode: failed claims
        self.nclaims = 0
        self.used_stubs = set()

    # ------------------------------------------------------------------ inputs
    def real(self, name, lo=None, hi=None, lo_strict=False, hi_strict=False):
        if self.sym:
            v = z3.Real(name)
            self.vars[name] = v
            self.ctx.input_ids.add(v.get_id())
            self.varbounds[name] = (lo, hi)
            if lo is not None:
                self.ctx.assume(v > S.toz(lo) if lo_strict else v >= S.toz(lo))
                if lo >= 0:
                    self.ctx.nonneg_ids.add(v.get_id())
            if hi is not None:
                self.ctx.assume(v < S.toz(hi) if hi_strict else v <= S.toz(hi))
            return Sym(v)
        if name not in self.inputs:
            raise PreconditionFailed("missing input %s" % name)
        x = float(self.inputs[name])
        if lo is not None and (x <= lo if lo_strict else x < lo):
            raise PreconditionFailed("%s=%r below %r" % (name, x, lo))
        if hi is not None and (x >= hi if hi_strict else x > hi):
            raise PreconditionFailed("%s=%r above %r" % (name, x, hi))
        return x

    def array(self, name, shape, lo=0.0, hi=None, dtype=np.float64, **kw):
        shape = tuple(shape)
        if self.sym:
            a = np.empty(shape, dtype=object)
            for idx in np.ndindex(shape):
                a[idx] = self.real(name + "_" + "_".join(map(str, idx)), lo, hi, **kw)
            return a
        a = np.empty(shape, dtype=np.float64)
        for idx in np.ndindex(shape):
            a[idx] = self.real(name + "_" + "_".join(map(str, idx)), lo, hi, **kw)
        return a.astype(dtype)

    def choice(self, name, n):
        """Symbolic integer in range(n), decided by forking (concretised)."""
        if self.sym:
            v = z3.Int(name)
            self.vars[name] = v
            self.ctx.assume(z3.And(v >= 0, v < n))
            for k in range(n - 1):
                if self.ctx.decide(v == k):
                    return k
            return n - 1
        return int(self.inputs[name])

    # ------------------------------------------------------------------ logic
    def assume(self, cond):
        if self.sym:
            self.ctx.assume(cond)
        else:
            if isinstance(cond, np.ndarray):
                cond = bool(cond.all())
            if not bool(cond):
                raise PreconditionFailed("assumption false on concrete inputs")

    def claim(self, cond, label, info=None, robust=None):
        """State that `cond` holds on this path. cond: bool | SymBool | z3 Bool.

        robust: optional stronger violation condition used to look for a numerically
        robust counterexample first (never used to discharge anything)."""
        self.nclaims += 1
        if isinstance(cond, np.ndarray):
            cond = _conj(_flat(cond))
        if self.sym:
            self.rec.obligation(self, cond, label, info, robust)
        else:
            ok = bool(cond)
            if not ok:
                self.failed.append({"label": label, "info": info})

    def close(self, a, b, label, rel=1e-9, abs_=1e-12, ctol=2e-5, catol=1e-9, info=None, scale=None):
        """Claim a == b elementwise within rel*|b|+abs_ (sym) / ctol,catol (concrete).

        scale: optional non-negative magnitude (scalar or per element) used for the relative
        part instead of |b| (for sums with cancellation: the sum of absolute terms)."""
        fa, fb = _flat(a), _flat(b)
        fs = None
        if scale is not None:
            fs = _flat(scale)
            if len(fs) == 1:
                fs = fs * len(fb)
        if len(fa) != len(fb):
            self.claim(False, label + ":shape", {"len_a": len(fa), "len_b": len(fb)})
            return
        if not self.sym:
            self.nclaims += 1
            aa = np.array([float(x) for x in fa], dtype=float)
            bb = np.array([float(x) for x in fb], dtype=float)
            if fs is not None:
                ss = np.array([abs(float(x)) for x in fs], dtype=float)
                ok = (np.abs(aa - bb) <= catol + ctol * ss) | (np.isnan(aa) & np.isnan(bb))
            else:
                ok = np.isclose(aa, bb, rtol=ctol, atol=catol, equal_nan=True)
            if not ok.all():
                i = int(np.argmin(ok))
                self.failed.append({"label": label, "info": {"index": i, "impl": aa[i], "ref": bb[i], **(info or {})}})
            return
        conds = []
        strong = []
        for i, (x, y) in enumerate(zip(fa, fb)):
            xs, ys = isinstance(x, (Sym, SymBool)), isinstance(y, (Sym, SymBool))
            if not xs and not ys:
                x, y = float(x), float(y)
                ok = (math.isnan(x) and math.isnan(y)) or x == y or (math.isfinite(x) and math.isfinite(y) and abs(x - y) <= abs_ + rel * abs(y) + 1e-15)
                conds.append(bool(ok))
                continue
            try:
                for v in (x, y):
                    if isinstance(v, Sym) and v.nan is not None:
                        conds.append(z3.Not(v.nan))  # a lazily-NaN value must not be NaN here
                xz, yz = S._tz(x), S._tz(y)
            except ValueError:
                conds.append(False)  # nan/inf against a finite symbolic value
                continue
            d = xz - yz
            mag = z3.If(yz >= 0, yz, -yz)
            if fs is not None:
                try:
                    sz = S.toz(fs[i])
                    mag = z3.If(sz >= 0, sz, -sz)
                except ValueError:
                    pass
            tol = S.toz(abs_) + S.toz(rel) * mag
            conds.append(z3.And(d <= tol, -d <= tol))
            big = S.toz(1e-6) + S.toz(1e-3) * mag
            strong.append(z3.Or(d > big, -d > big))
        self.claim(_conj(conds), label, info, robust=z3.Or(*strong) if strong else None)

    def proves(self, cond, timeout=5000):
        """sym mode: True iff the solver proves cond on this path (not an obligation, no record).
        concrete mode: plain truth value."""
        if not self.sym:
            return bool(cond)
        if isinstance(cond, SymBool):
            cond = cond.e
        if isinstance(cond, (bool, np.bool_)):
            return bool(cond)
        neg = z3.Not(cond)
        if (is_nonlinear(neg) or any(is_nonlinear(c) for c in self.ctx.relevant([neg]))) and self.rec._abstract_unsat(self, neg, timeout=min(timeout, 10000)):
            return True
        r, _ = self.rec._query([neg], timeout)
        return r == z3.unsat

    def generic_lemma(self, builder, actual, label, lo=0.0, timeout=60000):
        """Prove builder(xs) for ALL fresh reals xs >= lo with a stand-alone query, then add the
        instance builder(actual) to the path condition (sound: the lemma is universally valid).
        Counts as one obligation. concrete mode: evaluates the instance."""
        if not self.sym:
            self.claim(bool(builder(list(actual))), label)
            return True
        self.nclaims += 1
        rec = self.rec
        rec.obligations += 1
        rec.labels.append(label)
        if Env._lemma_cache.get(label) is True:
            # proven earlier in this process for all non-negative reals: instantiate only
            rec.discharged += 1
            rec.trivial += 1
            self.ctx.assume(builder(list(actual)))
            return True
        xs = [z3.Real("lem!%d!%d" % (rec.obligations, i)) for i in range(len(actual))]
        c = builder([Sym(x) for x in xs])
        c = c.e if isinstance(c, SymBool) else c
        s_ = z3.Solver()
        s_.set("timeout", timeout)
        s_.add(*[x >= S.toz(lo) for x in xs])
        s_.add(z3.Not(c))
        t0 = time.time()
        r = s_.check()
        rec.obl_time += time.time() - t0
        rec.nqueries += 1
        if r == z3.unsat:
            rec.discharged += 1
            Env._lemma_cache[label] = True
            inst = builder(list(actual))
            self.ctx.assume(inst)
            return True
        if r == z3.sat:
            rec.cex.append({"label": label, "info": {"lemma_model": str(s_.model())[:300]}, "inputs": model_inputs(self, self.ctx.solve([], 10000, full=True)[1]) if self.ctx.solve([], 10000, full=True)[0] == z3.sat else {}, "trace": list(self.ctx.trace)})
        else:
            rec.inconclusive.append({"label": label, "why": "lemma: solver unknown/timeout"})
        return False

    def equal(self, a, b, label, info=None):
        self.close(a, b, label, rel=0.0, abs_=0.0, info=info)

    # ------------------------------------------------------------------ stubs
    @contextlib.contextmanager
    def stubs(self, *managers):
        """Apply stub context managers in sym mode only (the replay runs unpatched code)."""
        if not self.sym:
            yield
            return
        with contextlib.ExitStack() as st:
            for m in managers:
                self.used_stubs.add(getattr(m, "stub_name", getattr(m, "__name__", str(m))))
                st.enter_context(m() if callable(m) and not hasattr(m, "__enter__") else m)
            yield

    @contextlib.contextmanager
    def lazy_sqrt(self):
        """sym mode: sqrt does not fork on a negative radicand but poisons its result (Sym.nan);
        the harness must resolve() the values it inspects."""
        if not self.sym:
            yield
            return
        old = self.ctx.lazy_sqrt
        self.ctx.lazy_sqrt = True
        try:
            yield
        finally:
            self.ctx.lazy_sqrt = old

    def resolve(self, x):
        return x.resolve() if isinstance(x, Sym) else x

    def note(self, **kw):
        if self.rec is not None:
            self.rec.notes.update(kw)

    def sqrt(self, x):
        if isinstance(x, Sym):
            return x.sqrt()
        return math.sqrt(x) if x >= 0 else float("nan")


def _conj(conds):
    zs = []
    for c in conds:
        if isinstance(c, SymBool):
            zs.append(c.e)
        elif isinstance(c, z3.ExprRef):
            zs.append(c)
        elif isinstance(c, (bool, np.bool_)):
            if not c:
                return False
        elif isinstance(c, Sym):
            zs.append(c.e != 0)
        else:
            if not bool(c):
                return False
    if not zs:
        return True
    return z3.And(*zs) if len(zs) > 1 else zs[0]


class PathRecord:
    """Obligations discharged on one explored path."""

    def __init__(self, ctx, obl_timeout=OBL_TIMEOUT_MS):
        self.ctx = ctx
        self.obl_timeout = obl_timeout
        self.obligations = 0
        self.trivial = 0
        self.discharged = 0
        self.inconclusive = []
        self.cex = []
        self.notes = {}
        self.labels = []
        self.obl_time = 0.0
        self.nqueries = 0
        self.via_abstraction = 0

    def _query(self, extra, timeout):
        """(result, model) for path condition + extra. Uses the cone-of-influence slice first;
        a `sat` there is confirmed against the full path condition so that models are genuine."""
        t0 = time.time()
        r, m = self.ctx.solve(extra, timeout)
        self.nqueries += 1
        if r == z3.sat and len(self.ctx.relevant(extra)) < len(self.ctx.conds):
            r2, m2 = self.ctx.solve(extra, timeout, full=True)
            self.nqueries += 1
            if r2 == z3.unsat:
                r, m = r2, None
            elif r2 == z3.sat:
                m = m2
            # unknown on the full condition: keep the slice model, the replay is the judge
        self.obl_time += time.time() - t0
        return r, m

    def _abstract_unsat(self, env, neg, timeout=30000):
        from vt.symreal.abstract import abstract_query
        nonneg = set()
        for name, v in env.vars.items():
            lo, _ = env.varbounds.get(name, (None, None))
            if lo is not None and lo >= 0:
                nonneg.add(v.get_id())
        for _, y in self.ctx.calls["sqrt"]:
            nonneg.add(y.get_id())
        t0 = time.time()
        try:
            asserts, ab = abstract_query(self.ctx.relevant([neg]), neg, nonneg, self.ctx.input_ids)
            s = z3.Solver()
            s.set("timeout", timeout)
            s.add(*asserts)
            r = s.check()
        except z3.Z3Exception:
            r = z3.unknown
        self.obl_time += time.time() - t0
        self.nqueries += 1
        return r == z3.unsat

    def ctx_feas_timeout(self):
        return S.FEAS_TIMEOUT_MS

    def obligation(self, env, cond, label, info, robust=None):
        self.obligations += 1
        self.labels.append(label)
        if isinstance(cond, SymBool):
            cond = cond.e
        if isinstance(cond, (bool, np.bool_)):
            if cond:
                self.trivial += 1
                self.discharged += 1
                return
            neg = z3.BoolVal(True)
        else:
            if z3.is_true(z3.simplify(cond)):
                self.trivial += 1
                self.discharged += 1
                return
            neg = z3.Not(cond)
        if is_nonlinear(neg) or any(is_nonlinear(c) for c in self.ctx.relevant([neg])):
            # non-linear obligation: try the linear-form abstraction first (sound for unsat)
            if self._abstract_unsat(env, neg, timeout=min(30000, int(self.obl_timeout))):
                self.discharged += 1
                self.via_abstraction += 1
                return
        r, m = self._query([neg], self.obl_timeout)
        if r == z3.unsat:
            self.discharged += 1
            return
        if r == z3.unknown:
            self.inconclusive.append({"label": label, "why": "solver unknown/timeout"})
            return
        # sat: try to obtain a numerically robust model first (bounded, away from ties)
        nice = []
        for name, v in env.vars.items():
            if z3.is_int(v):
                continue
            lo, hi = env.varbounds.get(name, (None, None))
            if hi is None:
                nice.append(v <= 64)
            nice.append(z3.ToReal(z3.ToInt(v * 64)) == v * 64)  # dyadic values: exact in floats
        tries = [[neg] + nice]
        if robust is not None:
            tries = [[neg, robust] + nice, [neg, robust]] + tries
        for extra in tries:
            r2, m2 = self._query(extra, ROBUST_TIMEOUT_MS)
            if r2 == z3.sat:
                m = m2
                break
        self.cex.append({"label": label, "info": info, "inputs": model_inputs(env, m), "trace": list(self.ctx.trace)})


def is_nonlinear(t, _seen=None):
    """True if the term has a product of two non-numerals, a non-constant divisor or a UF."""
    seen = _seen if _seen is not None else set()
    stack = [t]
    while stack:
        x = stack.pop()
        i = x.get_id()
        if i in seen:
            continue
        seen.add(i)
        if not z3.is_app(x):
            continue
        k = x.decl().kind()
        ch = x.children()
        if k == z3.Z3_OP_MUL and sum(0 if (z3.is_rational_value(c) or z3.is_int_value(c)) else 1 for c in ch) >= 2:
            return True
        if k in (z3.Z3_OP_DIV, z3.Z3_OP_IDIV, z3.Z3_OP_MOD, z3.Z3_OP_POWER) and not (z3.is_rational_value(ch[1]) or z3.is_int_value(ch[1])):
            return True
        if k == z3.Z3_OP_UNINTERPRETED and ch:
            return True
        stack.extend(ch)
    return False


def model_inputs(env, model):
    out = {}
    for name, v in env.vars.items():
        val = model.eval(v, model_completion=True)
        out[name] = S.z3num(val)
    return out
