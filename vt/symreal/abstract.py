"""Linear-form abstraction for non-linear obligations.

Ratio / root statistics are non-linear functions of a handful of LINEAR forms of the
inputs (moments).  nlsat chokes on 16 variables with 100-bit rational coefficients but
decides the same identity over 3-6 abstract variables instantly.  This module rewrites a
z3 term bottom-up: every maximal sub-term that is linear in the atoms (uninterpreted
constants) and mentions at least one atom is replaced by  scale * u_k  where u_k is a
fresh variable standing for the normalised coefficient vector.  Vectors that agree to
1e-12 relative share the variable (they differ only by float rounding of constants,
which is outside every claim; the scale keeps the exact ratio).

Replacing sub-terms by free variables is a generalisation, so `unsat` of the abstract
query implies `unsat` of the original (up to the stated 1e-12 identification).  A `sat`
answer of the abstract query means nothing and the caller falls back to the full query.
"""
import fractions

import z3

F = fractions.Fraction
MERGE_REL = F(1, 10**12)


def _num(t):
    if z3.is_rational_value(t):
        return F(t.numerator_as_long(), t.denominator_as_long())
    if z3.is_int_value(t):
        return F(t.as_long())
    return None


class Abstractor:
    def __init__(self, nonneg_atoms=(), input_atoms=None):
        # input_atoms: ids of the pure input variables; only those may be absorbed into an abstract
        # variable (defined variables such as sqrt!k carry constraints of their own and stay atoms)
        self.inputs = None if input_atoms is None else set(input_atoms)
        self.cache = {}
        self.forms = []      # list of (keys tuple, unit vector dict, var, nonneg flag)
        self.nonneg = set(nonneg_atoms)
        self.constraints = []
        self.nabs = 0

    # -- linear form of a term: dict atom_id->coef (None key = constant) or None
    def lin(self, t):
        k = t.get_id()
        if k in self.cache:
            return self.cache[k][0]
        r = self._lin(t)
        self.cache[k] = (r, t)
        return r

    def _lin(self, t):
        if not z3.is_real(t) and not z3.is_int(t):
            return None
        n = _num(t)
        if n is not None:
            return {None: n} if n else {}
        if z3.is_const(t) and t.decl().kind() == z3.Z3_OP_UNINTERPRETED:
            self.atoms = getattr(self, "atoms", {})
            self.atoms[t.get_id()] = t
            return {t.get_id(): F(1)}
        kind = t.decl().kind()
        ch = t.children()
        if kind == z3.Z3_OP_ADD:
            acc = {}
            for c in ch:
                l = self.lin(c)
                if l is None:
                    return None
                for a, v in l.items():
                    acc[a] = acc.get(a, 0) + v
            return {a: v for a, v in acc.items() if v}
        if kind == z3.Z3_OP_SUB:
            acc = {}
            for i, c in enumerate(ch):
                l = self.lin(c)
                if l is None:
                    return None
                for a, v in l.items():
                    acc[a] = acc.get(a, 0) + (v if i == 0 else -v)
            return {a: v for a, v in acc.items() if v}
        if kind == z3.Z3_OP_UMINUS:
            l = self.lin(ch[0])
            return None if l is None else {a: -v for a, v in l.items()}
        if kind == z3.Z3_OP_MUL:
            ls = [self.lin(c) for c in ch]
            if any(l is None for l in ls):
                return None
            const = F(1)
            nonconst = None
            for l in ls:
                if set(l) <= {None}:
                    const *= l.get(None, F(0))
                elif nonconst is None:
                    nonconst = l
                else:
                    return None
            if nonconst is None:
                return {None: const} if const else {}
            return {a: v * const for a, v in nonconst.items() if v * const}
        if kind == z3.Z3_OP_DIV:
            l0, l1 = self.lin(ch[0]), self.lin(ch[1])
            if l0 is None or l1 is None or not set(l1) <= {None} or not l1.get(None):
                return None
            d = l1[None]
            return {a: v / d for a, v in l0.items()}
        if kind == z3.Z3_OP_TO_REAL:
            return None
        return None

    def _var_for(self, l):
        """Abstract a linear form with >= 2 atoms (no constant part) as scale*u."""
        items = sorted(l.items())
        big = max(abs(v) for _, v in items)
        lead = next(v for _, v in items if abs(v) == big)
        scale = lead  # signed: unit vector has +1 at the dominant coefficient
        unit = {a: v / scale for a, v in items}
        keys = tuple(a for a, _ in items)
        for fk, fu, fv in self.forms:
            if fk == keys and all(abs(unit[a] - fu[a]) <= MERGE_REL * max(abs(fu[a]), F(1, 10**6)) for a in keys):
                return scale, fv
        self.nabs += 1
        u = z3.Real("lin!%d" % self.nabs)
        self.forms.append((keys, unit, u))
        if all(v >= 0 for v in unit.values()) and all(a in self.nonneg for a in keys):
            self.constraints.append(u >= 0)
        return scale, u

    def rewrite(self, t):
        k = ("rw", t.get_id())
        if k in self.cache:
            return self.cache[k]
        r = self._rewrite(t)
        self.cache[k] = r
        return r

    def _rewrite(self, t):
        if z3.is_real(t) or z3.is_int(t):
            l = self.lin(t)
            if l is not None:
                atoms = [a for a in l if a is not None]
                absorb = [a for a in atoms if self.inputs is None or a in self.inputs]
                if len(absorb) >= 2:
                    c = l.get(None, F(0))
                    body = {a: l[a] for a in absorb}
                    scale, u = self._var_for(body)
                    out = z3.RealVal(str(scale)) * u
                    for a in atoms:
                        if a not in body:
                            out = out + z3.RealVal(str(l[a])) * self.atoms[a]
                    if c:
                        out = out + z3.RealVal(str(c))
                    return out
                return t  # constants, single atoms and forms over defined variables stay
        ch = t.children()
        if not ch:
            return t
        new = [self.rewrite(c) for c in ch]
        if all(a.eq(b) for a, b in zip(new, ch)):
            return t
        return _rebuild(t, new)


def _rebuild(t, new):
    k = t.decl().kind()
    if k == z3.Z3_OP_AND:
        return z3.And(*new)
    if k == z3.Z3_OP_OR:
        return z3.Or(*new)
    if k == z3.Z3_OP_ADD:
        r = new[0]
        for c in new[1:]:
            r = r + c
        return r
    if k == z3.Z3_OP_MUL:
        r = new[0]
        for c in new[1:]:
            r = r * c
        return r
    return t.decl()(*new)


def abstract_query(conds, neg, nonneg_atom_ids, input_atom_ids=None):
    """Return (list of abstract assertions) equisatisfiable-or-weaker... see module doc."""
    ab = Abstractor(nonneg_atom_ids, input_atom_ids)
    out = [ab.rewrite(c) for c in conds]
    out.append(ab.rewrite(neg))
    out.extend(ab.constraints)
    return out, ab
