"""Stubs for the realisation points of Engine S (DESIGN.md section 2.2).

Every stub is a context manager; harnesses apply them through `env.stubs(...)`, which
is a no-op in concrete mode so replays always run the unpatched code.  Real functions
are re-bound (same code object, patched globals) or a module attribute is swapped for
the duration of a run; nothing in /repo is edited.
"""
import contextlib
import itertools
import types

import numpy as np
import xarray as xr

from vt.symreal.sym import CF, Sym, SymBool, has_sym


class _Proxy:
    """Module proxy: attribute overrides on top of a real module."""

    def __init__(self, mod, **over):
        self.__dict__["_m"] = mod
        self.__dict__["_o"] = over

    def __getattr__(self, k):
        o = self.__dict__["_o"]
        if k in o:
            return o[k]
        return getattr(self.__dict__["_m"], k)


def rebind(fn, **globs):
    g = dict(fn.__globals__)
    g.update(globs)
    f = types.FunctionType(fn.__code__, g, fn.__name__, fn.__defaults__, fn.__closure__)
    f.__kwdefaults__ = fn.__kwdefaults__
    return f


@contextlib.contextmanager
def patch_attr(obj, name, value):
    old = getattr(obj, name)
    setattr(obj, name, value)
    try:
        yield
    finally:
        setattr(obj, name, old)


def _named(name):
    def deco(f):
        f.stub_name = name
        return f
    return deco


# --- casts: identity on reals (float32/float64 rounding is outside every claim) ------------
@_named("cast-identity(DataArray.astype on symbolic data)")
@contextlib.contextmanager
def cast_identity():
    orig = xr.DataArray.astype

    def astype(self, dtype, **kw):
        if self.dtype == object and np.dtype(dtype).kind in "fiu" and has_sym(self.values):
            return self.copy()
        return orig(self, dtype, **kw)

    with patch_attr(xr.DataArray, "astype", astype):
        yield


# --- chunk: identity (everything dask is C07, not claimed) --------------------------------
@_named("chunk-identity(DataArray.chunk/Dataset.chunk on symbolic data)")
@contextlib.contextmanager
def chunk_identity():
    o1, o2 = xr.DataArray.chunk, xr.Dataset.chunk

    def chunk_da(self, *a, **k):
        if self.dtype == object:
            return self
        return o1(self, *a, **k)

    def chunk_ds(self, *a, **k):
        if any(v.dtype == object for v in self.data_vars.values()):
            return self
        return o2(self, *a, **k)

    with patch_attr(xr.DataArray, "chunk", chunk_da), patch_attr(xr.Dataset, "chunk", chunk_ds):
        yield


def ref_apply_ufunc(func, *args, input_core_dims=None, output_core_dims=((),), vectorize=False,
                    exclude_dims=frozenset(), dask=None, output_dtypes=None, dask_gufunc_kwargs=None, **kw):
    """Reference loop with xarray.apply_ufunc(vectorize=True) semantics for object data.

    Loops over all non-core dims (broadcast by name), hands the core dims to `func` in the
    declared order, stacks outputs with the declared output core dims appended last."""
    input_core_dims = list(input_core_dims or [[] for _ in args])
    output_core_dims = [list(d) for d in output_core_dims]
    loop_dims, sizes, coords = [], {}, {}
    for a, core in zip(args, input_core_dims):
        if isinstance(a, xr.DataArray):
            for d in a.dims:
                if d not in core and d not in loop_dims:
                    loop_dims.append(d)
                    sizes[d] = a.sizes[d]
                for c in a.coords:
                    if c not in coords and set(a.coords[c].dims) <= set(a.dims) - set(exclude_dims):
                        coords[c] = a.coords[c]
    nout = len(output_core_dims)
    cells = {}
    for idx in itertools.product(*[range(sizes[d]) for d in loop_dims]):
        sel = dict(zip(loop_dims, idx))
        call = []
        for a, core in zip(args, input_core_dims):
            if isinstance(a, xr.DataArray):
                s = a.isel({d: i for d, i in sel.items() if d in a.dims}).transpose(*core)
                v = s.values
                call.append(v if v.ndim else v.item())
            else:
                call.append(a)
        r = func(*call)
        cells[idx] = r if nout > 1 else (r,)
    outs = []
    for k in range(nout):
        first = np.asarray(cells[next(iter(cells))][k], dtype=object) if cells else np.empty((), dtype=object)
        shape = [sizes[d] for d in loop_dims] + list(first.shape)
        out = np.empty(shape, dtype=object)
        for idx, r in cells.items():
            v = np.asarray(r[k], dtype=object)
            out[idx] = v if v.ndim else v.item()
        dims = loop_dims + output_core_dims[k]
        cs = {c: v for c, v in coords.items() if set(v.dims) <= set(dims)}
        outs.append(xr.DataArray(out, dims=dims, coords=cs))
    return outs[0] if nout == 1 else tuple(outs)


@_named("apply_ufunc-reference-loop(inside wavespectra.core.xrstats / partition wrappers / tracking only)")
@contextlib.contextmanager
def apply_ufunc_loop(*modules):
    with contextlib.ExitStack() as st:
        for m in modules:
            st.enter_context(patch_attr(m, "xr", _Proxy(xr, apply_ufunc=ref_apply_ufunc)))
        yield


@_named("np.float32-identity(inside wavespectra.core.npstats)")
@contextlib.contextmanager
def float32_identity(*modules):
    def f32(x=0.0):
        if isinstance(x, (Sym, SymBool)) or (isinstance(x, np.ndarray) and x.dtype == object):
            return x
        return np.float32(x)

    with contextlib.ExitStack() as st:
        for m in modules:
            st.enter_context(patch_attr(m, "np", _Proxy(np, float32=f32)))
        yield


def peak_stubs():
    """The composition stubs needed by tp/fp/dpm/dpspr/alpha/gamma/dp on symbolic data."""
    from wavespectra.core import npstats, xrstats
    return [cast_identity, chunk_identity, lambda: apply_ufunc_loop(xrstats), lambda: float32_identity(npstats)]


# --- 1-D linear interpolation contract for DataArray.interp / Dataset.interp -------------
def _interp1(da, dim, new, assume_sorted=True, fill_value=np.nan):
    x = np.asarray(da[dim].values, dtype=float)
    new = np.asarray(new.values if hasattr(new, "values") else new, dtype=float)
    scalar = new.ndim == 0
    new = np.atleast_1d(new)
    if not assume_sorted:
        order = np.argsort(x, kind="stable")
        da = da.isel({dim: order})
        x = x[order]
    ax = da.get_axis_num(dim)
    src = np.moveaxis(da.values, ax, 0)
    out = np.empty((len(new),) + src.shape[1:], dtype=object)
    for k, t in enumerate(new):
        if t < x[0] or t > x[-1] or np.isnan(t):
            out[k] = CF(fill_value)
            if src.ndim > 1:
                out[k] = np.full(src.shape[1:], CF(fill_value), dtype=object)
            continue
        j = int(np.searchsorted(x, t, side="left"))
        if x[j] == t:
            out[k] = src[j]
            continue
        x0, x1 = x[j - 1], x[j]
        # numpy.interp / scipy interp1d linear form: y0 + (t-x0)*(y1-y0)/(x1-x0)
        w = (t - x0) / (x1 - x0)
        out[k] = src[j - 1] + w * (src[j] - src[j - 1])
    out = np.moveaxis(out, 0, ax)
    coords = {c: v for c, v in da.coords.items() if dim not in v.dims}
    res = xr.DataArray(out, dims=da.dims, coords=coords, name=da.name, attrs=da.attrs)
    res = res.assign_coords({dim: new})
    if scalar:
        res = res.isel({dim: 0})
    return res


@_named("interp-contract(DataArray.interp/Dataset.interp: 1-D linear, NaN or fill_value outside)")
@contextlib.contextmanager
def interp_contract():
    o1, o2 = xr.DataArray.interp, xr.Dataset.interp

    def interp_da(self, coords=None, method="linear", assume_sorted=False, kwargs=None, **ckw):
        if self.dtype != object:
            return o1(self, coords, method=method, assume_sorted=assume_sorted, kwargs=kwargs, **ckw)
        coords = dict(coords or {}, **ckw)
        fill = (kwargs or {}).get("fill_value", np.nan)
        out = self
        for dim, new in coords.items():
            out = _interp1(out, dim, new, assume_sorted, fill)
        return out

    def interp_ds(self, coords=None, method="linear", assume_sorted=False, kwargs=None, **ckw):
        if not any(v.dtype == object for v in self.data_vars.values()):
            return o2(self, coords, method=method, assume_sorted=assume_sorted, kwargs=kwargs, **ckw)
        coords = dict(coords or {}, **ckw)
        out = {}
        for name, v in self.data_vars.items():
            if all(d not in v.dims for d in coords):
                out[name] = v
            else:
                out[name] = interp_da(v if v.dtype == object else v.astype(object), {d: c for d, c in coords.items() if d in v.dims}, method, assume_sorted, kwargs)
        return xr.Dataset(out, attrs=self.attrs)

    with patch_attr(xr.DataArray, "interp", interp_da), patch_attr(xr.Dataset, "interp", interp_ds):
        yield


def validate_interp_contract(rng=None, n=20):
    """Translator validation: the interp stub against real xarray interp on random floats."""
    rng = rng or np.random.default_rng(0)
    bad = 0
    for _ in range(n):
        nx = int(rng.integers(2, 6))
        x = np.sort(rng.choice(np.arange(0, 40), nx, replace=False)).astype(float)
        y = rng.random((nx, 3))
        new = np.concatenate([rng.random(3) * 45 - 3, x[:2]])
        da = xr.DataArray(y, dims=("freq", "k"), coords={"freq": x})
        for fill in (np.nan, 0.0):
            kw = {} if np.isnan(fill) else {"fill_value": fill}
            real = da.interp(freq=new, assume_sorted=True, kwargs=kw).values
            mine = _interp1(da.astype(object), "freq", new, True, fill).values.astype(float)
            if not np.allclose(real, mine, rtol=1e-12, atol=1e-12, equal_nan=True):
                bad += 1
    return n * 2, bad


# --- misc numpy helpers without object loops ---------------------------------------------
def np_isnan(x):
    if isinstance(x, (Sym, SymBool)):
        return np.bool_(False)   # numpy bool: `~np.isnan(x)` must stay a boolean negation
    if isinstance(x, np.ndarray) and x.dtype == object:
        out = np.empty(x.shape, dtype=bool)
        for i, v in np.ndenumerate(x):
            out[i] = (not isinstance(v, (Sym, SymBool))) and bool(np.isnan(float(v)))
        return out
    if isinstance(x, float):
        return np.bool_(x != x)
    return np.isnan(x)


@_named("np.isnan object-aware (inside the named wavespectra module only)")
@contextlib.contextmanager
def isnan_aware(*modules):
    with contextlib.ExitStack() as st:
        for m in modules:
            st.enter_context(patch_attr(m, "np", _Proxy(np, isnan=np_isnan)))
        yield


@_named("float()-identity on symbolic values (inside the named wavespectra module only)")
@contextlib.contextmanager
def float_identity(*modules):
    import builtins

    def _float(x=0.0):
        if isinstance(x, (Sym, SymBool)):
            return x
        if hasattr(x, "values") and hasattr(x, "dims"):
            x = np.asarray(x.values)
        if isinstance(x, np.ndarray) and x.dtype == object and x.size == 1:
            v = x.ravel()[0]
            return v if isinstance(v, (Sym, SymBool)) else builtins.float(v)
        return builtins.float(x)

    olds = []
    for m in modules:
        olds.append((m, m.__dict__.get("float", None), "float" in m.__dict__))
        m.float = _float
    try:
        yield
    finally:
        for m, old, had in olds:
            if had:
                m.float = old
            else:
                del m.float


# ---- scipy.special: vocabulary extension ---------------------------------------------------------------------
# scipy's special functions are compiled ufuncs without object loops: a tree that calls one on a symbolic array
# raises TypeError in symbolic mode only (a machinery error, exit 3). They are wrapped BEFORE wavespectra is
# imported (vt/repo.setup), so that `from scipy.special import gammaln` binds the wrapper: floats go to the real
# function, symbolic values to an uninterpreted function WITHOUT axioms. Sound for "holds": whatever is proven
# holds for every interpretation; a model that depends on the interpretation is confirmed by the float replay
# (real scipy) or dropped as spurious.
SCIPY_SPECIAL = ("gammaln", "gamma", "loggamma", "erf", "erfc", "beta", "betaln", "digamma", "i0", "i1")


def scipy_special_vocabulary():
    import scipy.special as SS
    import z3

    from . import sym as S

    def wrap(name, orig):
        def one(*xs):
            if any(isinstance(x, S.Sym) for x in xs):
                if any(S.is_special(x) for x in xs):
                    return S.NAN
                key = "sp_%s_%d" % (name, len(xs))
                if key not in S.UF:
                    S.UF[key] = z3.Function(key, *([S.R] * (len(xs) + 1)))
                return S.Sym(S.UF[key](*[S._tz(x) for x in xs]))
            return S.CF(orig(*[float(x) for x in xs]))

        def f(*xs, **kw):
            if kw:
                return orig(*xs, **kw)
            for x in xs:
                if hasattr(x, "dims") and hasattr(x, "copy") and getattr(getattr(x, "dtype", None), "kind", "") == "O":
                    import xarray as xr
                    return xr.apply_ufunc(f, *xs)
            if any(isinstance(x, S.Sym) for x in xs):
                return one(*xs)
            if any(isinstance(x, np.ndarray) and x.dtype == object for x in xs):
                return np.frompyfunc(one, len(xs), 1)(*xs)
            return orig(*xs)

        f.__name__ = name
        f.__wrapped__ = orig
        return f

    for name in SCIPY_SPECIAL:
        orig = getattr(SS, name, None)
        if orig is None or hasattr(orig, "__wrapped__"):
            continue
        setattr(SS, name, wrap(name, orig))
