"""Text-layer contract for the ASCII writers/readers (DESIGN.md section 2.2).

A symbolic number travels through a REAL file as a whitespace-delimited token.  The contract of
printf/strtod for one number is:

  %W.0f    -> parsed back as SOME integer n with |n - v| <= 1/2
  %W.Pf    -> some real n with |n - v| <= 0.5 * 10^-P
  %.PE     -> some real n with |n - v| <= 0.5 * 10^-P * 10^floor(log10|v|), over-approximated by the
              relative bound |n - v| <= 5 * 10^-(P+1) * |v|

Headers, coordinates and times are really formatted and really parsed.
"""
import builtins
import contextlib
import re

import numpy as np
import z3

from vt.symreal import sym as S
from vt.symreal.stubs import _Proxy, _named
from vt.symreal.sym import CF, Sym, SymBool


class Tokens:
    def __init__(self):
        self.tab = {}

    def new(self, value, spec):
        k = "@T%d@" % len(self.tab)
        self.tab[k] = (value, spec)
        return k

    def parse(self, text):
        if hasattr(text, "values") and hasattr(text, "dims"):
            text = np.asarray(text.values)
        if isinstance(text, np.ndarray) and text.dtype == object and text.size == 1:
            text = text.ravel()[0]
        if isinstance(text, (Sym, SymBool)):
            return text      # float() of a value that is already a (symbolic) number
        t = text.strip() if isinstance(text, str) else text
        if isinstance(t, str) and t in self.tab:
            v, spec = self.tab[t]
            return _contract(v, spec)
        return builtins.float(text)


def _contract(v, spec):
    c = S.ctx()
    spec = spec.lstrip("%")
    m = re.fullmatch(r"[-+ 0<>]*(\d*)\.(\d+)([fFeE])", spec)
    if not m:
        raise S.Unsupported("text layer: format %r" % spec)
    prec, kind = int(m.group(2)), m.group(3).lower()
    n = c.fresh("num")
    if kind == "f":
        if prec == 0:
            ni = z3.Int(str(n) + "i")
            c.assume(z3.And(n == z3.ToReal(ni), n - v.e <= z3.RealVal("1/2"), v.e - n <= z3.RealVal("1/2")))
        else:
            h = z3.RealVal("1/%d" % (2 * 10**prec))
            c.assume(z3.And(n - v.e <= h, v.e - n <= h))
    else:
        r = z3.RealVal("5/%d" % (10 ** (prec + 1)))
        a = z3.If(v.e >= 0, v.e, -v.e)
        c.assume(z3.And(n - v.e <= r * a, v.e - n <= r * a))
    c.input_ids.discard(n.get_id())
    return Sym(n)


def _isnan(a):
    if isinstance(a, (Sym, SymBool)):
        return False
    if isinstance(a, np.ndarray) and a.dtype == object:
        out = np.zeros(a.shape, dtype=bool)
        for idx, x in np.ndenumerate(a):
            out[idx] = isinstance(x, float) and x != x
        return out
    return np.isnan(a)


@_named("text layer: np.savetxt / float() / str.format of ONE symbolic number <-> a token in the real file (printf/strtod contract); np.zeros, np.isnan object-aware - inside the named wavespectra modules only")
@contextlib.contextmanager
def text_layer(*modules):
    """Install the token layer in the given wavespectra modules for the duration of a run."""
    tok = Tokens()
    c = S.ctx()
    old_layer = getattr(c, "text_layer", None)
    c.text_layer = lambda symv, spec: tok.new(symv, spec if spec else ".17E")

    def savetxt(fid, arr, fmt="%.18e", delimiter=" ", **kw):
        arr = np.asarray(arr, dtype=object)
        if arr.ndim == 1:
            arr = arr.reshape(-1, 1)
        for row in arr:
            fid.write(delimiter.join((" " + tok.new(v, fmt)) if isinstance(v, Sym) else (fmt % float(v)) for v in row) + "\n")

    def zeros(shape, dtype=None, **kw):
        z = np.empty(shape, dtype=object)
        z[...] = CF(0.0)
        return z

    def full(shape, fill_value, dtype=None, **kw):
        z = np.empty(shape, dtype=object)
        z[...] = CF(fill_value) if isinstance(fill_value, (int, float)) else fill_value
        return z

    def ones(shape, dtype=None, **kw):
        return full(shape, 1.0)

    def genfromtxt(lines, **kw):
        """whitespace separated table of numbers / tokens (list of text lines or a path)."""
        if isinstance(lines, str):
            with open(lines) as f_:
                lines = f_.readlines()
        rows = [[tok.parse(t) for t in ln.split()] for ln in lines if ln.strip()]
        if any(isinstance(v, Sym) for r in rows for v in r):
            a = np.empty((len(rows), len(rows[0])), dtype=object)
            for i, r in enumerate(rows):
                for j, v in enumerate(r):
                    a[i, j] = v if isinstance(v, Sym) else CF(v)
            return a[0] if len(rows) == 1 else (a[:, 0] if a.shape[1] == 1 else a)
        return np.genfromtxt(lines, **kw)

    saved = []
    for m in modules:
        saved.append((m, m.__dict__.get("np"), m.__dict__.get("float", None), "float" in m.__dict__))
        if "np" in m.__dict__:
            m.np = _Proxy(np, savetxt=savetxt, zeros=zeros, isnan=_isnan, full=full, ones=ones, empty=zeros, genfromtxt=genfromtxt)
        m.float = tok.parse
    try:
        yield tok
    finally:
        c.text_layer = old_layer
        for m, onp, ofl, had in saved:
            if onp is not None:
                m.np = onp
            if had:
                m.float = ofl
            else:
                del m.float
