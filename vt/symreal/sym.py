"""Engine S core: symbolic reals over z3 pushed through real numpy/xarray code.

`Sym` wraps a z3 Real term; object-dtype numpy arrays of `Sym` run through the
unmodified numpy/xarray/wavespectra code.  The only place a path forks is
`SymBool.__bool__` (and the explicit forks on zero denominators / negative
radicands); the explorer replays decision prefixes depth first.
"""
import fractions
import math
import time

import numpy as np
import z3

FEAS_TIMEOUT_MS = 2500
PI = math.pi


class PathAbort(BaseException):
    """Current path is infeasible (both outcomes of a decision are unsat)."""


class BudgetExceeded(BaseException):
    """Path/decision budget exhausted: result is inconclusive, never success."""


class Unsupported(Exception):
    """The symbolic engine cannot encode an operation (harness error, not a finding)."""


_CONST_CACHE = {}


def fconst(x):
    """Exact rational value of a binary double as a z3 numeral."""
    r = _CONST_CACHE.get(x)
    if r is None:
        r = z3.RealVal(str(fractions.Fraction(x)))
        _CONST_CACHE[x] = r
    return r


# uninterpreted transcendental functions (sound over-approximations; axioms added per use)
R = z3.RealSort()
UF = {
    "cos": z3.Function("cos", R, R),
    "sin": z3.Function("sin", R, R),
    "exp": z3.Function("exp", R, R),
    "log": z3.Function("log", R, R),
    "tanh": z3.Function("tanh", R, R),
    "sinh": z3.Function("sinh", R, R),
    "cosh": z3.Function("cosh", R, R),
    "atan2": z3.Function("atan2", R, R, R),
    "pow": z3.Function("pow", R, R, R),
}


class Ctx:
    def __init__(self, prefix=(), pending=None, feas_timeout=FEAS_TIMEOUT_MS, max_decisions=4000):
        self.feas_timeout = feas_timeout
        self.cond_vars = []     # per cond: frozenset of ids of the uninterpreted constants it mentions
        self.cond_def = []      # per cond: id of the fresh variable it DEFINES (total definition) or None
        self._vars_cache = {}
        self.prefix = list(prefix)
        self.pos = 0
        self.trace = []
        self.conds = []
        self.pending = pending if pending is not None else []
        self.nfresh = 0
        self.nqueries = 0
        self.nunknown = 0
        self.solver_time = 0.0
        self.max_decisions = max_decisions
        self.nsym_decisions = 0
        self.ax_seen = set()
        self.calls = {"atan2": [], "sqrt": [], "log": [], "rint": []}
        self.nonneg_ids = set()
        self.input_ids = set()
        self.lazy_sqrt = False
        self._keep = []
        self.incremental = False
        self.defined_ids = set()
        self._inc = None
        self.sqrt_memo = {}   # (radicand ast id, lazy) -> (y, nan condition, radicand kept alive)
        self.forced = 0       # length of a prefix imposed from outside (sub-tree split), feasibility-checked when consumed
        self.model = None     # incremental mode only: a model of the whole current path condition, or None
        self.decided = {}     # ast id of a condition already decided on this path -> (term kept alive, outcome)
        self.concretized = {}  # ast id of an integer term already pinned on this path -> (term kept alive, value)

    # -- assumptions -----------------------------------------------------
    def assume(self, c, defines=None):
        """defines: fresh variable for which `c` is a total definition (always satisfiable whatever
        the other variables are); such a cond is only relevant to queries that mention the variable."""
        if isinstance(c, SymBool):
            c = c.e
        if isinstance(c, (bool, np.bool_)):
            if not c:
                raise PathAbort()
            return
        self.conds.append(c)
        self.cond_vars.append(self.vars_of(c))
        self.cond_def.append(defines.get_id() if defines is not None else None)
        if defines is not None:
            self.defined_ids.add(defines.get_id())
        if self._inc is not None:
            self._inc.add(c)
        self.model = None

    def vars_of(self, t):
        """ids of the uninterpreted constants in term t.

        Cached per AST node; the cache keeps the node alive because z3 recycles AST ids of
        collected terms (a stale id would silently return another term's variables)."""
        k = t.get_id()
        r = self._vars_cache.get(k)
        if r is not None:
            return r[0]
        out = set()
        stack = [t]
        seen = set()
        while stack:
            x = stack.pop()
            i = x.get_id()
            if i in seen:
                continue
            seen.add(i)
            c = self._vars_cache.get(i)
            if c is not None:
                out |= c[0]
                continue
            if z3.is_const(x):
                if x.decl().kind() == z3.Z3_OP_UNINTERPRETED:
                    out.add(i)
                continue
            if z3.is_app(x):
                stack.extend(x.children())
        r = frozenset(out)
        self._vars_cache[k] = (r, t)
        return r

    def relevant(self, exprs):
        """Cone of influence: conds sharing variables (transitively) with exprs; a definition is
        pulled in only when the variable it defines is relevant. Dropping conds over-approximates
        satisfiability, so `unsat` on the slice is `unsat` on the full path condition."""
        rel = set()
        for e in exprs:
            rel |= self.vars_of(e)
        picked = [False] * len(self.conds)
        changed = True
        while changed:
            changed = False
            for i, vs in enumerate(self.cond_vars):
                if picked[i]:
                    continue
                d = self.cond_def[i]
                # a branch condition over a derived variable (sqrt!k) is only pulled in when that variable
                # is already relevant: otherwise every query about the inputs would drag in its non-linear
                # definition (dropping a condition over-approximates, which is sound for `unsat`); a condition that
                # shares a DERIVED variable with the query (e.g. the print/parse contract of a token) always comes along
                if (d in rel) if d is not None else ((vs & rel) and ((vs & self.defined_ids) <= rel or ((vs & rel) - self.input_ids))):
                    picked[i] = True
                    if not vs <= rel:
                        rel |= vs
                    changed = True
        return [c for c, p in zip(self.conds, picked) if p]

    def solve(self, extra, timeout, full=False):
        """check-sat of (sliced or full) path condition + extra. Returns (result, model|None)."""
        extra = [e for e in extra]
        if self.incremental:
            # one solver kept alive for the whole path (engine L: thousands of small linear queries)
            if self._inc is None:
                self._inc = z3.Solver()
                self._inc.add(*self.conds)
            self._inc.set("timeout", int(timeout))
            t0 = time.time()
            self._inc.push()
            try:
                self._inc.add(*extra)
                r = self._inc.check()
                m = self._inc.model() if r == z3.sat else None
            finally:
                self._inc.pop()
            self.nqueries += 1
            self.solver_time += time.time() - t0
            return r, m
        conds = self.conds if full else self.relevant(extra)
        s = z3.Solver()
        s.set("timeout", int(timeout))
        s.add(*conds)
        s.add(*extra)
        t0 = time.time()
        r = s.check()
        self.nqueries += 1
        self.solver_time += time.time() - t0
        return r, (s.model() if r == z3.sat else None)

    def fresh(self, name="t"):
        self.nfresh += 1
        return z3.Real(f"{name}!{self.nfresh}")

    def axiom(self, key, c):
        if key in self.ax_seen:
            return
        self.ax_seen.add(key)
        self._keep.append(c)  # keeps the keyed term alive so its AST id is not recycled
        self.assume(c)

    def _check(self, extra):
        t0 = time.time()
        r, _ = self.solve([extra], self.feas_timeout)
        if r == z3.unknown:
            # non-linear feasibility: the linear-form abstraction is sound for `unsat`
            try:
                from vt.symreal.abstract import abstract_query
                asserts, _ = abstract_query(self.relevant([extra]), extra, self.nonneg_ids, self.input_ids)
                s2 = z3.Solver()
                s2.set("timeout", 5000)
                s2.add(*asserts)
                if s2.check() == z3.unsat:
                    r = z3.unsat
            except z3.Z3Exception:
                pass
            self.nqueries += 1
            self.solver_time += time.time() - t0
        if r == z3.unknown:
            self.nunknown += 1
        return r

    # -- decisions -------------------------------------------------------
    def decide(self, cond):
        if isinstance(cond, (bool, np.bool_)):
            return bool(cond)
        cond = z3.simplify(cond)
        if z3.is_true(cond):
            return True
        if z3.is_false(cond):
            return False
        hit = self.decided.get(cond.get_id())
        if hit is not None:
            return hit[1]   # the path condition already fixes it (it only grows along a path)
        if len(self.trace) >= self.max_decisions:
            raise BudgetExceeded("decisions on one path > %d" % self.max_decisions)
        if self.pos < len(self.prefix):
            d = self.prefix[self.pos]
            self.pos += 1
            self.trace.append(d)
            self.assume(cond if d else z3.Not(cond))
            self.decided[cond.get_id()] = (cond, d)
            if self.forced and self.pos <= self.forced:
                r, _ = self.solve([], self.feas_timeout, full=True)
                if r == z3.unsat:
                    raise PathAbort()
            return d
        mt = mf = None
        guess = None
        if self.incremental and self.model is not None:
            # the kept model satisfies the whole path condition: the side it takes is feasible without a query
            try:
                g = self.model.eval(cond, model_completion=True)
                guess = True if z3.is_true(g) else (False if z3.is_false(g) else None)
            except z3.Z3Exception:
                guess = None
        if guess is True:
            rt, mt = z3.sat, self.model
            rf, mf = self.solve([z3.Not(cond)], self.feas_timeout)
        elif guess is False:
            rf, mf = z3.sat, self.model
            rt, mt = self.solve([cond], self.feas_timeout)
        elif self.incremental:
            rt, mt = self.solve([cond], self.feas_timeout)
            rf, mf = self.solve([z3.Not(cond)], self.feas_timeout)
        else:
            rt = self._check(cond)
            rf = self._check(z3.Not(cond))
        if self.incremental:
            self.nunknown += (rt == z3.unknown) + (rf == z3.unknown)
        t_ok = rt != z3.unsat  # unknown => take the branch (over-approximation)
        f_ok = rf != z3.unsat
        if t_ok and f_ok:
            d = True
            self.pending.append(list(self.trace) + [False])
            self.nsym_decisions += 1
        elif t_ok:
            d = True
        elif f_ok:
            d = False
        else:
            raise PathAbort()
        self.pos += 1
        self.prefix.append(d)
        self.trace.append(d)
        self.assume(cond if d else z3.Not(cond))
        if self.incremental:
            self.model = mt if d else mf   # a model of the extended path condition (None if that side was `unknown`)
        self.decided[cond.get_id()] = (cond, d)
        return d


CTX = None


def ctx():
    if CTX is None:
        raise Unsupported("symbolic value used outside an exploration")
    return CTX


def set_ctx(c):
    global CTX
    CTX = c


# ---------------------------------------------------------------------------
# concrete floats that carry the ufunc method names numpy's object loops look up
# ---------------------------------------------------------------------------
class CF(float):
    __slots__ = ()

    def _w(self, v):
        return CF(v) if isinstance(v, float) and not isinstance(v, CF) else v

    def __add__(self, o): return self._w(float.__add__(self, o))
    def __radd__(self, o): return self._w(float.__radd__(self, o))
    def __sub__(self, o): return self._w(float.__sub__(self, o))
    def __rsub__(self, o): return self._w(float.__rsub__(self, o))
    def __mul__(self, o): return self._w(float.__mul__(self, o))
    def __rmul__(self, o): return self._w(float.__rmul__(self, o))
    def __neg__(self): return CF(float.__neg__(self))
    def __abs__(self): return CF(float.__abs__(self))

    def __truediv__(self, o):
        if isinstance(o, (int, float)) and not isinstance(o, bool) and o == 0:
            return CF(np.float64(self) / np.float64(o))
        return self._w(float.__truediv__(self, o))

    def __rtruediv__(self, o):
        if self == 0 and isinstance(o, (int, float)):
            return CF(np.float64(o) / np.float64(0.0))
        return self._w(float.__rtruediv__(self, o))

    def __pow__(self, o, m=None):
        if isinstance(o, Sym):
            return NotImplemented
        try:
            return CF(np.float64(self) ** o)
        except Exception:
            return NotImplemented

    def sqrt(self): return CF(np.sqrt(np.float64(self)))
    def cos(self): return CF(math.cos(self)) if math.isfinite(self) else CF("nan")
    def sin(self): return CF(math.sin(self)) if math.isfinite(self) else CF("nan")
    def exp(self): return CF(np.exp(np.float64(self)))
    def log(self): return CF(np.log(np.float64(self)))
    def tanh(self): return CF(math.tanh(self))
    def radians(self): return CF(math.radians(self))
    deg2rad = radians
    def degrees(self): return CF(math.degrees(self))
    rad2deg = degrees
    def arctan2(self, o):
        if isinstance(o, Sym):
            return Sym(fconst(float(self))).arctan2(o)
        return CF(math.atan2(self, o))
    def rint(self): return CF(np.rint(np.float64(self)))
    def conjugate(self): return self
    def isnan(self): return math.isnan(self)


NAN = CF("nan")


def is_special(x):
    return isinstance(x, float) and (math.isnan(x) or math.isinf(x))


def toz(x):
    """Public converter: refuses lazily-NaN values (resolve() them first)."""
    if isinstance(x, Sym) and x.nan is not None:
        raise Unsupported("lazily-NaN value used where a finite real is required (resolve() it first)")
    return _tz(x)


def _tz(x):
    """z3 Real term of a finite number; raises ValueError for nan/inf, TypeError otherwise."""
    if isinstance(x, Sym):
        return x.e
    if isinstance(x, z3.ArithRef):
        return x
    if isinstance(x, SymBool):
        return z3.If(x.e, z3.RealVal(1), z3.RealVal(0))
    if isinstance(x, (bool, np.bool_)):
        return z3.RealVal(int(x))
    if isinstance(x, (int, np.integer)):
        return z3.RealVal(int(x))
    if isinstance(x, (float, np.floating)):
        x = float(x)
        if math.isnan(x) or math.isinf(x):
            raise ValueError("special")
        return fconst(x)
    if isinstance(x, fractions.Fraction):
        return z3.RealVal(str(x))
    if isinstance(x, np.ndarray) and x.ndim == 0:
        return _tz(x.item())
    raise TypeError(type(x))


def _bz(x):
    if isinstance(x, SymBool):
        return x.e
    if isinstance(x, (bool, np.bool_)):
        return z3.BoolVal(bool(x))
    if isinstance(x, (int, np.integer)) and x in (0, 1):
        return z3.BoolVal(bool(x))
    raise TypeError(type(x))


class SymBool:
    __slots__ = ("e",)

    def __init__(self, e):
        self.e = e

    def __bool__(self):
        return ctx().decide(self.e)

    def __and__(self, o):
        try:
            return SymBool(z3.And(self.e, _bz(o)))
        except TypeError:
            return NotImplemented
    __rand__ = __and__

    def __or__(self, o):
        try:
            return SymBool(z3.Or(self.e, _bz(o)))
        except TypeError:
            return NotImplemented
    __ror__ = __or__

    def __xor__(self, o):
        try:
            return SymBool(z3.Xor(self.e, _bz(o)))
        except TypeError:
            return NotImplemented
    __rxor__ = __xor__

    def __invert__(self):
        return SymBool(z3.Not(self.e))

    def logical_not(self):
        return SymBool(z3.Not(self.e))

    # `condition *= mask` in scale_by_hs multiplies booleans
    def __mul__(self, o):
        if isinstance(o, (SymBool, bool, np.bool_)):
            return self & o
        if isinstance(o, (int, np.integer)) and o in (0, 1):
            return self & bool(o)
        return Sym(toz(self)) * o
    __rmul__ = __mul__

    def __add__(self, o):
        return Sym(toz(self)) + o
    __radd__ = __add__

    def __eq__(self, o):
        try:
            return SymBool(self.e == _bz(o))
        except TypeError:
            return NotImplemented

    def __ne__(self, o):
        try:
            return SymBool(self.e != _bz(o))
        except TypeError:
            return NotImplemented

    def __hash__(self):
        return id(self)

    def __repr__(self):
        return f"SymBool({self.e})"


def _ipow(e, p):
    r = z3.RealVal(1)
    for _ in range(abs(p)):
        r = r * e
    return r


def _nj(a, b):
    """Join two lazy-NaN conditions."""
    if a is None:
        return b
    if b is None:
        return a
    return z3.Or(a, b)


class Sym:
    """Symbolic finite real. `nan` (optional z3 Bool) is a lazy poison: when it holds the value
    is NaN instead (only produced by sqrt when the context runs with lazy_sqrt)."""
    __slots__ = ("e", "nan")

    def __init__(self, e, nan=None):
        self.e = e
        self.nan = nan

    def resolve(self):
        """Fork on the lazy NaN condition: concrete NaN or a clean symbolic value."""
        if self.nan is None:
            return self
        if ctx().decide(self.nan):
            return NAN
        return Sym(self.e)

    # -- arithmetic ----------------------------------------------------
    def _bin(self, o, f, swap=False):
        if isinstance(o, np.ndarray):
            return NotImplemented
        try:
            oz = _tz(o)
        except TypeError:
            return NotImplemented
        except ValueError:
            return _special_bin(self, o, f, swap)
        return Sym(f(oz, self.e) if swap else f(self.e, oz), _nj(self.nan, getattr(o, "nan", None)))

    def __add__(self, o): return self._bin(o, lambda a, b: a + b)
    def __radd__(self, o): return self._bin(o, lambda a, b: a + b, True)
    def __sub__(self, o): return self._bin(o, lambda a, b: a - b)
    def __rsub__(self, o): return self._bin(o, lambda a, b: a - b, True)

    def __mul__(self, o):
        if isinstance(o, (SymBool,)):
            return Sym(z3.If(o.e, self.e, z3.RealVal(0)))
        return self._bin(o, lambda a, b: a * b)

    def __rmul__(self, o):
        if isinstance(o, (SymBool,)):
            return Sym(z3.If(o.e, self.e, z3.RealVal(0)))
        return self._bin(o, lambda a, b: a * b, True)

    def __truediv__(self, o):
        if isinstance(o, np.ndarray):
            return NotImplemented
        if isinstance(o, Sym):
            c = ctx()
            if c.decide(o.e == 0):
                if c.decide(self.e == 0):
                    return NAN
                return CF("inf") if c.decide(self.e > 0) else CF("-inf")
            return Sym(self.e / o.e, _nj(self.nan, o.nan))
        try:
            oz = _tz(o)
        except TypeError:
            return NotImplemented
        except ValueError:
            if math.isnan(o):
                return NAN
            return Sym(z3.RealVal(0), self.nan)  # finite / +-inf
        if o == 0:
            c = ctx()
            if c.decide(self.e == 0):
                return NAN
            return CF("inf") if c.decide(self.e > 0) else CF("-inf")
        return Sym(self.e / oz, self.nan)

    def __rtruediv__(self, o):
        if isinstance(o, np.ndarray):
            return NotImplemented
        try:
            oz = _tz(o)
        except TypeError:
            return NotImplemented
        except ValueError:
            if math.isnan(o):
                return NAN
            c = ctx()
            if c.decide(self.e == 0):
                return CF(o)
            return CF(o) if c.decide(self.e > 0) else CF(-o)
        c = ctx()
        if c.decide(self.e == 0):
            if o == 0:
                return NAN
            return CF("inf") if o > 0 else CF("-inf")
        return Sym(oz / self.e, self.nan)

    def __neg__(self): return Sym(-self.e, self.nan)
    def __pos__(self): return self
    def __abs__(self): return Sym(z3.If(self.e >= 0, self.e, -self.e), self.nan)
    absolute = __abs__
    fabs = __abs__

    def __pow__(self, p, m=None):
        if isinstance(p, np.ndarray):
            return NotImplemented
        if isinstance(p, Sym):
            return Sym(_pow_uf(self.e, p.e))
        if isinstance(p, (np.floating, np.integer)):
            p = p.item()
        if isinstance(p, bool) or not isinstance(p, (int, float)):
            return NotImplemented
        if p == 0.5:
            return self.sqrt()
        if float(p).is_integer():
            p = int(p)
            if p >= 0:
                return Sym(_ipow(self.e, p), self.nan)
            c = ctx()
            if c.decide(self.e == 0):
                return CF("inf")
            return Sym(1 / _ipow(self.e, p), self.nan)
        return Sym(_pow_uf(self.e, fconst(float(p))))

    def __rpow__(self, b):
        if isinstance(b, np.ndarray):
            return NotImplemented
        try:
            bz = _tz(b)
        except (TypeError, ValueError):
            return NotImplemented
        return Sym(_pow_uf(bz, self.e))

    def __mod__(self, o):
        try:
            oz = _tz(o)
        except (TypeError, ValueError):
            return NotImplemented
        q = z3.ToReal(z3.ToInt(self.e / oz))
        return Sym(self.e - oz * q)

    def __rmod__(self, o):
        try:
            oz = _tz(o)
        except (TypeError, ValueError):
            return NotImplemented
        q = z3.ToReal(z3.ToInt(oz / self.e))
        return Sym(oz - self.e * q)

    def __floordiv__(self, o):
        try:
            oz = _tz(o)
        except (TypeError, ValueError):
            return NotImplemented
        return Sym(z3.ToReal(z3.ToInt(self.e / oz)))

    # -- comparisons ----------------------------------------------------
    def _cmp(self, o, f, nanval=False):
        if isinstance(o, np.ndarray):
            return NotImplemented
        try:
            oz = _tz(o)
        except TypeError:
            return NotImplemented
        except ValueError:
            if math.isnan(o):
                return nanval
            return f(0.0, float(o))  # finite vs +-inf: same as 0 vs inf
        nan = _nj(self.nan, getattr(o, "nan", None))
        r = f(self.e, oz)
        if nan is not None:
            r = z3.Or(r, nan) if nanval else z3.And(r, z3.Not(nan))
        return SymBool(r)

    def __lt__(self, o): return self._cmp(o, lambda a, b: a < b)
    def __le__(self, o): return self._cmp(o, lambda a, b: a <= b)
    def __gt__(self, o): return self._cmp(o, lambda a, b: a > b)
    def __ge__(self, o): return self._cmp(o, lambda a, b: a >= b)
    def __eq__(self, o): return self._cmp(o, lambda a, b: a == b)
    def __ne__(self, o): return self._cmp(o, lambda a, b: a != b, True)

    def __hash__(self):
        return id(self)

    def __bool__(self):
        return ctx().decide(self.e != 0)

    def __float__(self):
        raise Unsupported("realisation of a symbolic value to float")

    def __int__(self):
        raise Unsupported("realisation of a symbolic value to int")

    __index__ = __int__

    def __repr__(self):
        s = str(self.e)
        return "Sym(%s)" % (s if len(s) < 60 else s[:57] + "...")

    def __format__(self, spec):
        c = CTX
        if c is not None and getattr(c, "text_layer", None) is not None:
            return c.text_layer(self, spec)
        # messages / attribute strings only: a placeholder (never parsed back)
        return "<sym>"

    def __str__(self):
        return "<sym>"

    # -- ufunc method names (numpy object loops) -------------------------
    def sqrt(self):
        c = ctx()
        memo = c.sqrt_memo.get((self.e.get_id(), c.lazy_sqrt))
        if memo is not None:
            # same radicand as an earlier sqrt on this path: same value (keeps relational checks trivial)
            return Sym(memo[0], _nj(self.nan, memo[1]))
        if c.lazy_sqrt:
            y = c.fresh("sqrt")
            c.assume(z3.Implies(self.e >= 0, z3.And(y >= 0, y * y == self.e)), defines=y)
            _sqrt_monotone(c, self.e, y, lazy=True)
            c.calls["sqrt"].append((self.e, y))
            c.nonneg_ids.add(y.get_id())
            c.sqrt_memo[(self.e.get_id(), True)] = (y, self.e < 0, self.e)
            return Sym(y, _nj(self.nan, self.e < 0))
        if self.nan is not None:
            return self.resolve().sqrt()
        if c.decide(self.e < 0):
            return NAN
        y = c.fresh("sqrt")
        c.assume(z3.And(y >= 0, y * y == self.e), defines=y)
        _sqrt_monotone(c, self.e, y, lazy=False)
        c.calls["sqrt"].append((self.e, y))
        c.nonneg_ids.add(y.get_id())
        c.sqrt_memo[(self.e.get_id(), False)] = (y, None, self.e)
        return Sym(y)

    def conjugate(self): return self
    def radians(self): return Sym(self.e * fconst(PI / 180.0))
    deg2rad = radians
    def degrees(self): return Sym(self.e * fconst(180.0 / PI))
    rad2deg = degrees

    def cos(self):
        r = _trig(self.e)[0]
        h = fconst(PI / 2)
        ctx().axiom(("cosrange", r.get_id()), z3.And(z3.Implies(z3.And(self.e > -h, self.e < h), r > 0), z3.Implies(z3.And(self.e >= -h, self.e <= h), r >= 0),
                                                     z3.Implies(self.e == 0, r == 1), r <= 1, r >= -1))
        return Sym(r, self.nan)

    def sin(self):
        r = _trig(self.e)[1]
        ctx().axiom(("sinrange", r.get_id()), z3.And(z3.Implies(z3.And(self.e > 0, self.e < fconst(PI)), r > 0), z3.Implies(self.e == 0, r == 0), r <= 1, r >= -1))
        return Sym(r, self.nan)

    def arctan2(self, o):
        oz = _tz(o)
        t = UF["atan2"](self.e, oz)
        ctx().axiom(("atan2", t.get_id()), z3.And(t > -fconst(PI) - fconst(1e-12), t <= fconst(PI) + fconst(1e-12)))
        ctx().calls["atan2"].append((self.e, oz, t))
        return Sym(t)

    def exp(self):
        t = UF["exp"](self.e)
        ctx().axiom(("exp", t.get_id()), t > 0)
        return Sym(t)

    def log(self):
        c = ctx()
        if c.decide(self.e <= 0):
            return CF("-inf") if c.decide(self.e == 0) else NAN
        t = UF["log"](self.e)
        c.calls["log"].append((self.e, t))
        c.axiom(("log", t.get_id()), z3.And(z3.Implies(self.e >= 1, t >= 0), z3.Implies(self.e == 1, t == 0), z3.Implies(self.e > 1, t > 0)))
        return Sym(t)

    def tanh(self):
        t = UF["tanh"](self.e)
        ctx().axiom(("tanh", t.get_id()), z3.And(t > -1, t < 1, z3.Implies(self.e > 0, t > 0), z3.Implies(self.e == 0, t == 0)))
        return Sym(t)

    def rint(self):
        # round half to even is approximated by floor(x+1/2) except exactly at .5 (fork there)
        r = z3.ToReal(z3.ToInt(self.e + fconst(0.5)))
        ctx().calls["rint"].append((self.e, r))
        return Sym(r)

    def round(self, n=0):
        if n:
            raise Unsupported("round(n != 0)")
        return self.rint()

    __round__ = round

    def floor(self): return Sym(z3.ToReal(z3.ToInt(self.e)))
    def isnan(self): return False
    def isfinite(self): return True
    def sign(self): return Sym(z3.If(self.e > 0, z3.RealVal(1), z3.If(self.e < 0, z3.RealVal(-1), z3.RealVal(0))))
    def square(self): return Sym(self.e * self.e)

    def maximum(self, o):
        oz = _tz(o)
        return Sym(z3.If(self.e >= oz, self.e, oz))

    def minimum(self, o):
        oz = _tz(o)
        return Sym(z3.If(self.e <= oz, self.e, oz))


def _sqrt_monotone(c, x, y, lazy, last=6):
    """Sound lemma: sqrt is strictly increasing, so the order of two roots is the order of their
    (non-negative) radicands. Lets the solver decide root comparisons on the radicands."""
    for xp, yp in c.calls["sqrt"][-last:]:
        guard = z3.And(x >= 0, xp >= 0) if lazy else z3.BoolVal(True)
        c.assume(z3.Implies(guard, z3.And((y < yp) == (x < xp), (y == yp) == (x == xp))), defines=y)


def _special_bin(s, o, f, swap):
    """Sym (finite) op nan/inf."""
    if math.isnan(o):
        return NAN
    # probe the operation with a finite stand-in; for + and - the result is +-inf,
    # for * it depends on the sign of the symbolic operand
    try:
        a, b = (float(o), 1.0) if swap else (1.0, float(o))
        r1 = f(a, b)
        a, b = (float(o), -1.0) if swap else (-1.0, float(o))
        r2 = f(a, b)
    except Exception:
        return NAN
    if r1 == r2:
        return CF(r1)
    c = ctx()
    if c.decide(s.e == 0):
        return NAN
    return CF(r1) if c.decide(s.e > 0) else CF(r2)


def _trig(e):
    """(cos(e), sin(e)) of a symbolic angle.

    The angle is split into its constant part c and its symbolic part s (e = c + s, when e is linear);
    cos/sin of s are uninterpreted terms tied by cos^2+sin^2=1, and the angle-addition formulas with the
    exact double values of cos c, sin c give cos e, sin e.  Identities such as sum_j cos(theta_j - a) = 0
    on a uniform circle are then within reach of the solver."""
    c0 = 0.0
    sym_part = e
    try:
        from vt.symreal.abstract import Abstractor
        l = Abstractor().lin(e)
        if l is not None and l.get(None) and any(k is not None for k in l):
            c0 = float(l[None])
            sym_part = z3.simplify(e - z3.RealVal(str(l[None])))
    except Exception:
        c0, sym_part = 0.0, e
    cs, sn = UF["cos"](sym_part), UF["sin"](sym_part)
    ctx().axiom(("trig", cs.get_id()), z3.And(cs * cs + sn * sn == 1, cs >= -1, cs <= 1, sn >= -1, sn <= 1))
    if c0 == 0.0:
        return cs, sn
    cc, sc = fconst(math.cos(c0)), fconst(math.sin(c0))
    return cc * cs - sc * sn, sc * cs + cc * sn


def _pow_uf(b, p):
    t = UF["pow"](b, p)
    ctx().axiom(("pow", t.get_id()), z3.And(z3.Implies(b > 0, t > 0), z3.Implies(b >= 0, t >= 0), z3.Implies(b == 1, t == 1), z3.Implies(p == 0, t == 1), z3.Implies(z3.And(b == 0, p > 0), t == 0)))
    return t


def symvalue(x):
    """Wrap a z3 term / number as an element suitable for an object array."""
    if isinstance(x, (Sym, SymBool)):
        return x
    if isinstance(x, z3.ExprRef):
        return Sym(x)
    return x


def has_sym(a):
    """True if `a` (scalar or array) contains symbolic elements."""
    if isinstance(a, (Sym, SymBool)):
        return True
    if isinstance(a, np.ndarray) and a.dtype == object:
        return any(isinstance(v, (Sym, SymBool)) for v in a.flat)
    return False


def model_value(model, term):
    """Float value of a z3 term in a model (model completion on)."""
    v = model.eval(term, model_completion=True)
    return z3num(v)


def z3num(v):
    if z3.is_rational_value(v):
        return float(fractions.Fraction(v.numerator_as_long(), v.denominator_as_long()))
    if z3.is_algebraic_value(v):
        a = v.approx(30)
        return float(fractions.Fraction(a.numerator_as_long(), a.denominator_as_long()))
    if z3.is_int_value(v):
        return float(v.as_long())
    if z3.is_true(v):
        return 1.0
    if z3.is_false(v):
        return 0.0
    raise Unsupported("cannot read model value %s" % v)
