"""Merging ndarray subclass for pure-numpy units (tracking, select internals).

Elementwise comparisons, logical and/or/not, where, maximum/minimum, abs and isnan on object arrays of
symbolic reals build If/And/Or TERMS instead of forking a path per element, so forks remain only at real
control flow (`if d != 999`, sorted, argsort).  xarray strips ndarray subclasses, so this is only used where
the code under test is plain numpy.
"""
import operator

import numpy as np
import z3

from vt.symreal.sym import CF, Sym, SymBool, _tz as toz

def _b(x):
    if isinstance(x, SymBool): return x.e
    if isinstance(x, (bool, np.bool_)): return z3.BoolVal(bool(x))
    raise TypeError(type(x))

def _ite(c, a, b):
    if isinstance(c, (bool, np.bool_)): return a if c else b
    if isinstance(c, SymBool):
        if isinstance(a, (SymBool, bool, np.bool_)) and isinstance(b, (SymBool, bool, np.bool_)):
            return SymBool(z3.If(c.e, _b(a), _b(b)))
        return Sym(z3.If(c.e, toz(a), toz(b)))
    raise TypeError(type(c))

def _and(a, b):
    if isinstance(a, (bool, np.bool_)) and isinstance(b, (bool, np.bool_)): return bool(a) and bool(b)
    return SymBool(z3.And(_b(a), _b(b)))
def _or(a, b):
    if isinstance(a, (bool, np.bool_)) and isinstance(b, (bool, np.bool_)): return bool(a) or bool(b)
    return SymBool(z3.Or(_b(a), _b(b)))
def _not(a):
    if isinstance(a, (bool, np.bool_)): return not a
    return SymBool(z3.Not(_b(a)))
def _max(a, b): 
    c = a >= b
    return _ite(c, a, b)
def _min(a, b):
    c = a <= b
    return _ite(c, a, b)
def _abs(a):
    if isinstance(a, Sym): return Sym(z3.If(a.e >= 0, a.e, -a.e))
    return CF(abs(a)) if isinstance(a, float) else abs(a)

CMP = {np.less: operator.lt, np.less_equal: operator.le, np.greater: operator.gt, np.greater_equal: operator.ge,
       np.equal: operator.eq, np.not_equal: operator.ne}
BIN = {np.logical_and: _and, np.logical_or: _or, np.bitwise_and: _and, np.bitwise_or: _or, np.maximum: _max, np.minimum: _min}
def _isnan(a):
    if isinstance(a, (Sym, SymBool)):
        return False
    return isinstance(a, float) and a != a


UN = {np.logical_not: _not, np.invert: _not, np.absolute: _abs, np.isnan: _isnan}

def vec(f, *arrs):
    arrs = [np.asarray(a, dtype=object) if not isinstance(a, np.ndarray) else a.view(np.ndarray) for a in arrs]
    bs = np.broadcast_arrays(*arrs)
    out = np.empty(bs[0].shape, dtype=object)
    for idx in np.ndindex(out.shape):
        out[idx] = f(*[b[idx] for b in bs])
    return out.view(SymArray)

class SymArray(np.ndarray):
    def __array_ufunc__(self, ufunc, method, *inputs, **kw):
        if method == '__call__' and not kw.get('out'):
            if ufunc in CMP: return vec(CMP[ufunc], *inputs)
            if ufunc in BIN: return vec(BIN[ufunc], *inputs)
            if ufunc in UN: return vec(UN[ufunc], *inputs)
        ins = [i.view(np.ndarray) if isinstance(i, SymArray) else i for i in inputs]
        if 'out' in kw: kw['out'] = tuple(o.view(np.ndarray) if isinstance(o, SymArray) else o for o in kw['out'])
        r = getattr(ufunc, method)(*ins, **kw)
        return r.view(SymArray) if isinstance(r, np.ndarray) and r.dtype == object else r
    def __array_function__(self, func, types, args, kwargs):
        if func is np.where and len(args) == 3:
            return vec(_ite, *args)
        if func is np.ones_like or func is np.zeros_like:
            a = args[0].view(np.ndarray)
            return func(a, *args[1:], **kwargs)
        return super().__array_function__(func, types, args, kwargs)
    def astype(self, dtype, *a, **k):
        if np.dtype(dtype).kind == 'f': return self.copy()
        return np.ndarray.astype(self, dtype, *a, **k)

def as_symarray(a):
    return np.asarray(a, dtype=object).view(SymArray)


def symarray(shape, name, ctx, lo=None, hi=None):
    a = np.empty(shape, dtype=object)
    for idx in np.ndindex(a.shape):
        v = z3.Real(name + "_" + "_".join(map(str, idx)))
        if lo is not None: ctx.assume(v >= lo)
        if hi is not None: ctx.assume(v <= hi)
        a[idx] = Sym(v)
    return a.view(SymArray)
