/* Replay driver: runs partition() of the repository's specpart.c on concrete spectra.
 * stdin: ncalls, then per call: nk nth ihmax followed by nk*nth floats (row-major [freq][dir]).
 * stdout: per call one line "MAP v v v ..." (nk*nth ints, row-major [freq][dir]).
 * Built with -fsanitize=address,undefined so memory errors and UB abort with a report. */
#include <stdio.h>
#include <stdlib.h>
void partition(float *spec, int *ipart, int nk, int nth, int ihmax);
int main(void) {
  int ncalls, c;
  if (scanf("%d", &ncalls) != 1) return 2;
  for (c = 0; c < ncalls; c++) {
    int nk, nth, ihmax, i;
    if (scanf("%d %d %d", &nk, &nth, &ihmax) != 3) return 2;
    float *spec = malloc(sizeof(float) * nk * nth);
    int *ipart = malloc(sizeof(int) * nk * nth);
    for (i = 0; i < nk * nth; i++) { double x; if (scanf("%lf", &x) != 1) return 2; spec[i] = (float)x; }
    partition(spec, ipart, nk, nth, ihmax);
    printf("MAP");
    /* the library writes ipart[ifreq + nk*iang]; the Python wrapper exposes that buffer as a
       Fortran-ordered (nk, nth) array, i.e. label(ifreq, iang) = ipart[ifreq + nk*iang] */
    { int j; for (i = 0; i < nk; i++) for (j = 0; j < nth; j++) printf(" %d", ipart[i + nk * j]); }
    printf("\n");
    free(spec); free(ipart);
  }
  return 0;
}
