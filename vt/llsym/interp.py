"""Engine L: symbolic interpreter for the LLVM IR clang emits for specpart.c (-O0 + mem2reg).

Values: i32/i64 are Python ints when concrete and z3 Int terms when symbolic (every add/sub/mul on a
symbolic operand raises an int32-overflow obligation); float/double are z3 Reals (exact rationals for
concrete constants).  Memory: every malloc/global/alloca is an object of known size, a pointer is
(object, byte offset); loads/stores through symbolic offsets raise in-bounds obligations and are then
concretised by forking.  Reads of never-written cells, use after free, double free and exit() are
reported as violations.  Anything outside the 22 opcodes / 6 intrinsics aborts as "not encodable".
"""
import math
import os
import re
import subprocess

import z3

from vt.symreal.sym import PathAbort, Unsupported

I32_MIN, I32_MAX = -2**31, 2**31 - 1

class Violation(Exception):
    """memory-safety / UB / termination obligation violated on a feasible path."""


class NotEncodable(Unsupported):
    pass


def build_ir(c_path, outdir):
    """clang -O0 (optnone disabled) + mem2reg on the CURRENT source; returns the .ll path."""
    o0 = os.path.join(outdir, "specpart_O0.ll")
    m2r = os.path.join(outdir, "specpart_m2r.ll")
    subprocess.run(["clang", "-O0", "-S", "-emit-llvm", "-w", "-Xclang", "-disable-O0-optnone", c_path, "-o", o0], check=True, capture_output=True, timeout=120)
    subprocess.run(["opt", "-S", "-mem2reg", o0, "-o", m2r], check=True, capture_output=True, timeout=120)
    return m2r

def is_sym(v): return isinstance(v, z3.ExprRef)

TY = r'(?:i1|i8|i32|i64|float|double|void)\**'

def parse(path):
    txt = open(path).read()
    glob = {}
    for m in re.finditer(r'^@([\w.]+) = (?:internal|private)[^\n]*?global (\S+) (\S+),', txt, re.M):
        glob[m.group(1)] = (m.group(2), m.group(3))
    funcs = {}
    for m in re.finditer(r'^define [^@]*@(\w+)\(([^)]*)\)[^{]*\{\n(.*?)^\}', txt, re.M | re.S):
        name, params, body = m.groups()
        pnames = re.findall(r'(%[\w.]+)\s*(?:,|$)', params)
        blocks = {}; cur = str(len(pnames)); blocks[cur] = []
        for line in body.split('\n'):
            line = line.split(' ; ')[0].rstrip() if not line.strip().startswith(';') else ''
            if not line.strip(): continue
            lm = re.match(r'^([\w.]+):', line)
            if lm:
                cur = lm.group(1); blocks[cur] = []; continue
            blocks[cur].append(parse_instr(line.strip()))
        funcs[name] = (pnames, blocks, str(len(pnames)))
    return glob, funcs

def parse_instr(s):
    m = re.match(r'(%[\w.]+) = (.*)', s)
    dst = None
    if m: dst, s = m.group(1), m.group(2)
    op = s.split()[0]
    return (dst, op, s)

class Mem:
    def __init__(self):
        self.objs = {}; self.n = 0
    def alloc(self, size, name=""):
        self.n += 1
        self.objs[self.n] = dict(size=size, cells={}, live=True, name=name)
        return (self.n, 0)

class Interp:
    def __init__(self, glob, funcs, ctx):
        self.funcs = funcs; self.ctx = ctx; self.mem = Mem(); self.steps = 0
        self.gptr = {}
        self.nqueries = 0
        self.nobl = 0
        self.max_steps = 2_000_000
        ctx.incremental = True
        for g, (ty, init) in glob.items():
            p = self.mem.alloc(8, g); self.gptr[g] = p
            if ty.endswith('*'): self.mem.objs[p[0]]['cells'][0] = None
            elif ty == 'i32': self.mem.objs[p[0]]['cells'][0] = int(init)
    # ---- values
    def val(self, env, tok):
        tok = tok.strip()
        if tok.startswith('%'): return env[tok]
        if tok.startswith('@'): return self.gptr[tok[1:]]
        if tok == 'null': return None
        if tok in ('true', 'false'): return tok == 'true'
        if re.match(r'^-?\d+$', tok): return int(tok)
        if re.match(r'^-?[\d.]+e[+-]\d+$', tok):
            f = float(tok); return int(f) if f.is_integer() and abs(f) < 1e15 else z3.RealVal(tok) if False else f
        if tok.startswith('0x'):
            import struct
            return struct.unpack('>d', bytes.fromhex(tok[2:].rjust(16, '0')))[0]
        raise NotEncodable('operand ' + tok)
    def check_bounds(self, ptr, width, what):
        obj, off = ptr if ptr else (None, None)
        if ptr is None: raise Violation(f"{what}: null pointer")
        o = self.mem.objs[obj]
        if not o['live']: raise Violation(f"{what}: use after free {o['name']}")
        if is_sym(off):
            r, mdl = self.ctx.solve([z3.Or(off < 0, off + width > o['size'])], 20000, full=True)
            self.nqueries += 1
            self.nobl += 1
            if r != z3.unsat:
                raise Violation(f"{what}: out-of-bounds symbolic offset {off} into {o['name']} of {o['size']} bytes ({r})")
            off = self.concretize(off)
        else:
            self.nobl += 1
            if off < 0 or off + width > o['size']:
                raise Violation(f"{what}: out of bounds off={off} size={o['size']} obj={o['name']}")
        return obj, off
    def concretize(self, e):
        if not is_sym(e): return e
        hit = self.ctx.concretized.get(e.get_id())
        if hit is not None:
            return hit[1]
        v = self._concretize(e)
        self.ctx.concretized[e.get_id()] = (e, v)
        return v
    def _concretize(self, e):
        while True:
            m = self.ctx.model
            if m is None:
                r, m = self.ctx.solve([], 20000, full=True)
                self.nqueries += 1
                if r != z3.sat:
                    raise PathAbort()
                self.ctx.model = m
            v = m.eval(e, model_completion=True).as_long()
            if self.ctx.decide(e == v):
                return v
    def load(self, ptr, width):
        obj, off = self.check_bounds(ptr, width, "load")
        cells = self.mem.objs[obj]['cells']
        if off not in cells: raise Violation(f"uninitialised read {self.mem.objs[obj]['name']}[{off}]")
        return cells[off]
    def store(self, ptr, width, v):
        obj, off = self.check_bounds(ptr, width, "store")
        self.mem.objs[obj]['cells'][off] = v
    # ---- arithmetic helpers
    def truth(self, c):
        if isinstance(c, bool): return c
        return self.ctx.decide(c)
    def call(self, fname, args):
        pnames, blocks, entry = self.funcs[fname]
        env = dict(zip(pnames, args))
        cur, prev = entry, None
        while True:
            instrs = blocks[cur]
            # phis evaluated simultaneously
            phivals = {}
            i = 0
            while i < len(instrs) and instrs[i][1] == 'phi':
                dst, op, s = instrs[i]
                for v, lbl in re.findall(r'\[ ([^,]+), %([\w.]+) \]', s):
                    if lbl == prev: phivals[dst] = self.val(env, v)
                i += 1
            env.update(phivals)
            for dst, op, s in instrs[i:]:
                self.steps += 1
                if self.steps > self.max_steps:
                    raise Violation("instruction budget exceeded (non-termination suspect)")
                if op == 'br':
                    m = re.match(r'br i1 (\S+), label %([\w.]+), label %([\w.]+)', s)
                    if m:
                        c = self.val(env, m.group(1))
                        nxt = m.group(2) if self.truth(c) else m.group(3)
                    else:
                        nxt = re.match(r'br label %([\w.]+)', s).group(1)
                    prev, cur = cur, nxt
                    break
                if op == 'ret':
                    m = re.match(r'ret \S+ (\S+)', s)
                    return self.val(env, m.group(1)) if m else None
                if op == 'unreachable': raise Violation("unreachable reached")
                env_val = self.exec(env, op, s)
                if dst: env[dst] = env_val
    def exec(self, env, op, s):
        V = lambda t: self.val(env, t)
        if op == 'load':
            m = re.match(r'load (\S+), \S+ (\S+), align', s)
            ty = m.group(1)
            return self.load(V(m.group(2)), 8 if ty.endswith('*') or ty in ('i64', 'double') else 4)
        if op == 'store':
            m = re.match(r'store (\S+) (\S+), \S+ (\S+), align', s)
            ty = m.group(1)
            self.store(V(m.group(3)), 8 if ty.endswith('*') or ty in ('i64', 'double') else 4, V(m.group(2))); return None
        if op == 'getelementptr':
            m = re.match(r'getelementptr inbounds (\S+), \S+ (\S+), i64 (\S+)$', s)
            ty, base, idx = m.group(1), V(m.group(2)), V(m.group(3))
            w = 4 if ty in ('i32', 'float') else 8
            if base is None: raise Violation("gep on null")
            return (base[0], base[1] + idx * w)
        if op in ('sext', 'zext', 'bitcast', 'fpext', 'fptrunc', 'trunc'):
            m = re.match(rf'{op} \S+ (\S+) to', s); return V(m.group(1))
        if op in ('add', 'sub', 'mul', 'sdiv'):
            m = re.match(rf'{op} (?:nsw |nuw )*(\S+) (\S+), (\S+)', s)
            a, b = V(m.group(2)), V(m.group(3))
            if op in ('add', 'sub', 'mul'):
                r = a + b if op == 'add' else a - b if op == 'sub' else a * b
                ty = m.group(1)
                if ty == 'i32':
                    self.nobl += 1
                    if is_sym(r):
                        rr, _ = self.ctx.solve([z3.Or(r < I32_MIN, r > I32_MAX)], 20000, full=True)
                        self.nqueries += 1
                        if rr != z3.unsat:
                            raise Violation(f"signed int32 overflow possible in {s} ({rr})")
                    elif not (I32_MIN <= r <= I32_MAX):
                        raise Violation(f"signed int32 overflow in {s}: {r}")
            else:
                if is_sym(a) or is_sym(b):
                    b = self.concretize(b) if is_sym(b) else b
                    a = self.concretize(a) if is_sym(a) else a
                r = int(a / b)  # trunc toward zero
            return r
        if op == 'icmp':
            m = re.match(r'icmp (\w+) \S+ (\S+), (\S+)', s)
            p, a, b = m.group(1), V(m.group(2)), V(m.group(3))
            if a is None or b is None or isinstance(a, tuple) or isinstance(b, tuple):
                return (a == b) if p == 'eq' else (a != b)
            return {'eq': lambda: a == b, 'ne': lambda: a != b, 'slt': lambda: a < b, 'sle': lambda: a <= b,
                    'sgt': lambda: a > b, 'sge': lambda: a >= b}[p]()
        if op == 'fcmp':
            m = re.match(r'fcmp (\w+) \S+ (\S+), (\S+)', s)
            p, a, b = m.group(1), V(m.group(2)), V(m.group(3))
            a, b = self.fl(a), self.fl(b)
            return {'olt': lambda: a < b, 'ole': lambda: a <= b, 'ogt': lambda: a > b, 'oge': lambda: a >= b}[p]()
        if op in ('fsub', 'fadd', 'fmul', 'fdiv'):
            m = re.match(rf'{op} \S+ (\S+), (\S+)', s)
            a, b = self.fl(V(m.group(1))), self.fl(V(m.group(2)))
            if op == 'fdiv' and is_sym(b):
                bc = self.implied_const(b)
                if bc is not None: b = bc
            return {'fsub': lambda: a - b, 'fadd': lambda: a + b, 'fmul': lambda: a * b, 'fdiv': lambda: a / b}[op]()
        if op == 'sitofp':
            m = re.match(r'sitofp \S+ (\S+) to', s); v = V(m.group(1))
            return z3.ToReal(v) if is_sym(v) else v
        if op == 'fptosi':
            m = re.match(r'fptosi \S+ (\S+) to', s); v = V(m.group(1))
            if is_sym(v):
                # pin the integer on this path (forks over its possible values): everything computed from it
                # - levels, indices, offsets - is then concrete
                return self.concretize(z3.If(v >= 0, z3.ToInt(v), -z3.ToInt(-v)))
            return int(v)
        if op == 'alloca':
            return self.mem.alloc(8, 'alloca')
        if op == 'call':
            m = re.match(r'call [^@]*@([\w.]+)\((.*)\)', s)
            fn, argstr = m.group(1), m.group(2)
            args = []
            for a in split_args(argstr):
                a = re.sub(r'\bnoundef\b', '', a).strip()
                if 'getelementptr' in a: args.append(None); continue
                args.append(V(a.split()[-1]))
            return self.intrinsic(fn, args)
        raise NotEncodable('instruction outside the encoded subset: ' + s)
    def fl(self, v):
        if isinstance(v, float) and not is_sym(v):
            if v.is_integer(): return int(v)
            from fractions import Fraction
            return z3.RealVal(str(Fraction(v)))
        return v
    def implied_const(self, e):
        r, m = self.ctx.solve([], 20000, full=True)
        if r != z3.sat:
            return None
        v = m.eval(e, model_completion=True)
        r2, _ = self.ctx.solve([e != v], 20000, full=True)
        self.nqueries += 2
        return v if r2 == z3.unsat else None
    def ite(self, c, a, b):
        if isinstance(c, bool): return a if c else b
        a = z3.RealVal(a) if not is_sym(a) else a
        b = z3.RealVal(b) if not is_sym(b) else b
        if a.sort() != b.sort():
            a = z3.ToReal(a) if a.sort() == z3.IntSort() else a
            b = z3.ToReal(b) if b.sort() == z3.IntSort() else b
        return z3.If(c, a, b)
    def intrinsic(self, fn, args):
        if fn == 'malloc':
            n = args[0]
            if is_sym(n): n = self.concretize(n)
            return self.mem.alloc(n, f"malloc#{self.mem.n+1}")
        if fn == 'free':
            p = args[0]
            if p is None: return None
            o = self.mem.objs[p[0]]
            if not o['live']: raise Violation("double free")
            o['live'] = False; return None
        if fn in ('printf',): return 0
        if fn == 'exit': raise Violation("exit() called")
        a = [self.fl(x) for x in args]
        # min / max of symbolic operands become a fresh variable with its defining constraints (r >= a, r >= b,
        # r == a or r == b): nested if-then-else chains for the running extrema of the spectrum made every later
        # query cost 0.3 s; forking on the comparison instead multiplies the paths by the orderings of the bins
        if fn.startswith('llvm.minnum') or fn.startswith('llvm.maxnum'):
            x, y = a[0], a[1]
            mx = fn.startswith('llvm.maxnum')
            if not is_sym(x) and not is_sym(y):
                return (max if mx else min)(x, y)
            r = self.ctx.fresh("ext")
            self.ctx.assume(z3.And(r >= x, r >= y, z3.Or(r == x, r == y)) if mx else z3.And(r <= x, r <= y, z3.Or(r == x, r == y)), defines=r)
            return r
        if fn.startswith('llvm.fabs'): return self.ite(a[0] >= 0, a[0], -a[0])   # flat term, no fork
        if fn.startswith('llvm.fmuladd'): return a[0] * a[1] + a[2]
        if fn.startswith('llvm.round'):
            x = a[0]
            if not is_sym(x): return math.floor(x + 0.5) if x >= 0 else -math.floor(-x + 0.5)
            h = z3.RealVal("1/2")
            return z3.If(x >= 0, z3.ToReal(z3.ToInt(x + h)), -z3.ToReal(z3.ToInt(-x + h)))
        if fn in self.funcs: return self.call(fn, args)
        raise NotEncodable('call outside the encoded subset: ' + fn)

def split_args(s):
    out, depth, cur = [], 0, ''
    for ch in s:
        if ch in '([': depth += 1
        if ch in ')]': depth -= 1
        if ch == ',' and depth == 0: out.append(cur); cur = ''
        else: cur += ch
    if cur.strip(): out.append(cur)
    return out
