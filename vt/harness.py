"""Harness registry and the path explorer that drives one harness to a verdict."""
import hashlib
import inspect
import itertools
import json
import os
import time
import traceback
import warnings

import numpy as np
import z3

from vt.env import Env, PathRecord, PreconditionFailed, model_inputs
from vt.symreal import sym as S

REGISTRY = {}  # prop -> list[HarnessInstance]


class HarnessInstance:
    def __init__(self, prop, fn, params, tiers, opts):
        self.prop = prop
        self.fn = fn
        self.params = params
        self.tiers = tiers
        self.opts = opts
        ptxt = ",".join("%s=%s" % (k, _short(v)) for k, v in sorted(params.items()))
        self.name = fn.__name__ + ("[" + ptxt + "]" if ptxt else "")

    def call(self, env):
        return self.fn(env, **self.params)


def _short(v):
    if isinstance(v, (list, tuple)):
        return "(" + "/".join(_short(x) for x in v) + ")"
    if isinstance(v, dict):
        return "{" + "/".join("%s:%s" % (k, _short(x)) for k, x in v.items()) + "}"
    if isinstance(v, float):
        return "%g" % v
    return str(v)


def harness(prop, quick=(), thorough=(), **opts):
    """Register fn with parameter dict lists for the quick tier and extra ones for thorough.

    quick / thorough: iterables of dicts (kwargs of the harness). Thorough runs quick + thorough.
    """
    def deco(fn):
        lst = REGISTRY.setdefault(prop, [])
        for p in (quick or [{}]):
            lst.append(HarnessInstance(prop, fn, dict(p), ("quick", "thorough"), opts))
        for p in thorough:
            lst.append(HarnessInstance(prop, fn, dict(p), ("thorough",), opts))
        return fn
    return deco


def grid(**axes):
    """Cartesian product of keyword lists -> list of dicts."""
    keys = list(axes)
    return [dict(zip(keys, vals)) for vals in itertools.product(*[axes[k] for k in keys])]


def find(prop, name):
    for h in REGISTRY.get(prop, []):
        if h.name == name:
            return h
    raise KeyError("%s:%s" % (prop, name))


# ---------------------------------------------------------------------------
def run_concrete(h, inputs):
    """Run harness on the unpatched code with concrete float inputs.

    Returns dict(status= 'ok' | 'failed' | 'exception' | 'precondition', ...)."""
    env = Env("concrete", inputs=inputs)
    S.set_ctx(None)
    try:
        with warnings.catch_warnings():
            warnings.simplefilter("ignore")
            with np.errstate(all="ignore"):
                h.call(env)
    except PreconditionFailed as e:
        return {"status": "precondition", "detail": str(e)}
    except S.Unsupported as e:
        return {"status": "harness_error", "detail": "Unsupported in concrete mode: %s" % e}
    except Exception as e:  # the real code raised on valid input
        tb = traceback.extract_tb(e.__traceback__)
        where = [(os.path.relpath(f.filename, "/"), f.lineno, f.name) for f in tb][-4:]
        if _in_harness(tb) and not getattr(e, "real_code_failure", False):
            return {"status": "harness_error", "detail": "%s: %s" % (type(e).__name__, str(e)[:200]), "where": where}
        return {"status": "exception", "exc_type": type(e).__name__, "detail": str(e)[:300], "where": where, "nclaims": env.nclaims}
    if env.failed:
        return {"status": "failed", "failed": _jsonable(env.failed[:5]), "nclaims": env.nclaims}
    return {"status": "ok", "nclaims": env.nclaims}


def _jsonable(x):
    if isinstance(x, dict):
        return {str(k): _jsonable(v) for k, v in x.items()}
    if isinstance(x, (list, tuple)):
        return [_jsonable(v) for v in x]
    if isinstance(x, (np.floating, float)):
        x = float(x)
        return x if np.isfinite(x) else repr(x)
    if isinstance(x, (np.integer,)):
        return int(x)
    if isinstance(x, (np.bool_,)):
        return bool(x)
    if isinstance(x, np.ndarray):
        return _jsonable(x.tolist())
    if isinstance(x, (str, int, bool)) or x is None:
        return x
    return str(x)[:200]


def _zshort(c, n=160):
    """bounded rendering of a (possibly huge) z3 term."""
    import z3
    from z3 import z3printer
    f = z3printer._Formatter
    old = (f.max_depth, f.max_args, f.max_visited)
    try:
        z3.set_option(max_depth=6, max_args=8, max_visited=300)
        return str(c)[:n]
    except Exception:
        return "<term>"
    finally:
        z3.set_option(max_depth=old[0], max_args=old[1], max_visited=old[2])


def explore(h, max_paths=2000, time_budget=600.0, witness_per_harness=3, obl_timeout=60000, allowed_exc=()):
    """Symbolically explore all feasible paths of harness h. Returns result dict."""
    t_start = time.time()
    res = {
        "harness": h.name, "prop": h.prop, "params": _jsonable(h.params),
        "paths": 0, "infeasible": 0, "decisions": 0, "sym_decisions": 0, "nontrivial_paths": 0,
        "queries": 0, "solver_time": 0.0, "feas_unknown": 0,
        "obligations": 0, "trivial": 0, "discharged": 0, "via_abstraction": 0, "inconclusive": [],
        "cex": [], "violations": [], "spurious": [], "crashes": [],
        "witness_validated": 0, "witness_skipped": 0,
        "engine_errors": [], "budget": None, "samples": [], "stubs": [], "labels": [],
    }
    pending = [[]]
    part = h.params.get("part") if isinstance(h.params, dict) else None
    if part:
        # "i/n" (n a power of two): explore only the sub-tree whose first log2(n) recorded decisions spell i in
        # binary; the n instances together cover every path (a forced prefix that is infeasible aborts at once)
        i_, n_ = (int(x) for x in str(part).split("/"))
        k_ = n_.bit_length() - 1
        assert 1 << k_ == n_ and 0 <= i_ < n_
        pending = [[bool((i_ >> b) & 1) for b in range(k_)]]
        forced_root = k_
    else:
        forced_root = 0
    seen_traces = set()
    labels = set()
    stubs = set()
    while pending:
        if res["paths"] >= max_paths:
            res["budget"] = "max_paths=%d reached with %d prefixes pending" % (max_paths, len(pending))
            break
        if time.time() - t_start > time_budget:
            res["budget"] = "time budget %.0fs reached with %d prefixes pending" % (time_budget, len(pending))
            break
        prefix = pending.pop()
        ctx = S.Ctx(prefix=prefix, pending=pending)
        if forced_root and len(prefix) == forced_root:
            ctx.forced = forced_root     # the root of this sub-tree was not produced by the solver: check it is feasible
        S.set_ctx(ctx)
        rec = PathRecord(ctx, obl_timeout=obl_timeout)
        env = Env("sym", ctx=ctx, record=rec)
        status = "ok"
        err = None
        try:
            with warnings.catch_warnings():
                warnings.simplefilter("ignore")
                h.call(env)
        except S.PathAbort:
            status = "infeasible"
        except S.BudgetExceeded as e:
            status = "budget"
            res["budget"] = str(e)
        except S.Unsupported as e:
            status = "engine_error"
            err = "Unsupported: %s @ %s" % (e, _where(e))
        except z3.Z3Exception as e:
            status = "engine_error"
            err = "Z3Exception: %s @ %s" % (e, _where(e))
        except allowed_exc:
            status = "ok"
        except Exception as e:
            status = "exception"
            err = (type(e).__name__, str(e)[:300], _where(e))
            if _in_harness(traceback.extract_tb(e.__traceback__)):
                status = "engine_error"
                err = "harness code raised %s: %s @ %s" % (type(e).__name__, str(e)[:200], _where_any(e))
        finally:
            S.set_ctx(None)
        stubs |= env.used_stubs
        res["queries"] += ctx.nqueries + rec.nqueries
        res["solver_time"] += ctx.solver_time + rec.obl_time
        res["feas_unknown"] += ctx.nunknown
        if status == "infeasible":
            res["infeasible"] += 1
            continue
        res["paths"] += 1
        res["decisions"] += len(ctx.trace)
        res["sym_decisions"] += ctx.nsym_decisions
        tkey = tuple(ctx.trace)
        nontrivial = (ctx.nsym_decisions > 0 or len(ctx.trace) > 0 or rec.obligations - rec.trivial > 0) and tkey not in seen_traces
        seen_traces.add(tkey)
        if nontrivial:
            res["nontrivial_paths"] += 1
        res["obligations"] += rec.obligations
        res["trivial"] += rec.trivial
        res["discharged"] += rec.discharged
        res["via_abstraction"] += rec.via_abstraction
        labels.update(rec.labels)
        for inc in rec.inconclusive:
            inc["trace"] = _tr(ctx.trace)
            res["inconclusive"].append(inc)
        if status == "engine_error":
            res["engine_errors"].append({"error": err, "trace": _tr(ctx.trace)})
            continue
        if status == "budget":
            continue
        if status == "exception":
            # candidate crash: the real code raised on a feasible path -> get inputs and replay
            r, mdl = ctx.solve([], 20000, full=True)
            if r == z3.unsat:
                # the path was only taken because a feasibility query was inconclusive
                res["paths"] -= 1
                res["infeasible"] += 1
                continue
            if r == z3.sat:
                inputs = model_inputs(env, mdl)
                out = run_concrete(h, inputs)
                entry = {"kind": "crash", "label": "exception:%s" % err[0], "exc": err, "inputs": inputs, "replay": out, "trace": _tr(ctx.trace)}
                if out["status"] == "exception" and out["exc_type"] == err[0]:
                    res["violations"].append(entry)
                else:
                    res["engine_errors"].append({"error": "exception only in symbolic mode: %s" % (err,), "replay": out, "trace": _tr(ctx.trace)})
            else:
                res["engine_errors"].append({"error": "exception on path whose feasibility is %s: %s" % (r, err), "trace": _tr(ctx.trace)})
            continue
        # counterexamples -> replay on the unpatched code in floats
        for c in rec.cex:
            out = run_concrete(h, c["inputs"])
            entry = {"kind": "cex", "label": c["label"], "info": _jsonable(c["info"]), "inputs": c["inputs"], "replay": out, "trace": _tr(c["trace"])}
            res["cex"].append(entry["label"])
            if out["status"] in ("failed", "exception"):
                # say which claim the float run actually fails when it is not the one the solver refuted
                fl = [f_.get("label") for f_ in out.get("failed", [])] if out["status"] == "failed" else ["exception:%s" % out.get("exc_type")]
                if fl and c["label"] not in fl:
                    entry["float_replay_fails"] = fl[:3]
                res["violations"].append(entry)
            elif out["status"] == "harness_error":
                res["engine_errors"].append({"error": "harness error in concrete replay: %s" % out, "trace": _tr(c["trace"])})
            else:
                res["spurious"].append(entry)
        # witness validation (also the vacuity witness): a model of the path condition is
        # pushed through the real code in floats and every claim must hold there too
        if rec.obligations and (res["witness_validated"] + res["witness_skipped"] < witness_per_harness or rec.inconclusive) and not rec.cex:
            w = _witness(env, ctx, interior=bool(h.opts.get("witness_interior")))
            if w is None:
                res["witness_skipped"] += 1
            else:
                out = run_concrete(h, w)
                if out["status"] == "ok":
                    res["witness_validated"] += 1
                    if len(res["samples"]) < 3:
                        res["samples"].append({"path_decisions": _tr(ctx.trace), "path_condition": [_zshort(c) for c in ctx.conds[-4:]], "witness_inputs": _round(w), "claims_checked": out["nclaims"], "obligation_labels": sorted(set(rec.labels))[:8]})
                elif out["status"] == "precondition":
                    res["witness_skipped"] += 1
                elif out["status"] == "harness_error":
                    res["engine_errors"].append({"error": "harness error in witness replay: %s" % out, "trace": _tr(ctx.trace)})
                else:
                    res["violations"].append({"kind": "witness", "label": "witness:" + (out.get("failed", [{}])[0].get("label") if out.get("failed") else "exception:" + str(out.get("exc_type"))), "inputs": w, "replay": out, "trace": _tr(ctx.trace)})
    res["stubs"] = sorted(stubs)
    res["labels"] = sorted(labels)
    res["wall_s"] = time.time() - t_start
    res["pending_left"] = len(pending) if res["budget"] else 0
    return res


def _in_harness(tb):
    """True if the innermost frame of the traceback is harness code (not the library, numpy, ...)."""
    tb = list(tb)
    return bool(tb) and "/verif/vt/" in tb[-1].filename and "/verif/vt/symreal/" not in tb[-1].filename


def _where_any(e):
    f = list(traceback.extract_tb(e.__traceback__))[-1]
    return "%s:%d:%s" % (f.filename, f.lineno, f.name)


def _witness(env, ctx, interior=False):
    """A model of the path condition as concrete inputs. `interior` (harness option `witness_interior`) first asks for a
    witness in general position - every bounded real input in the middle three quarters of its range - so that the float
    replay of a path whose obligation the solver left undecided is not run on a degenerate point (zero energy makes
    every normalisation claim true)."""
    nice, inner = [], []
    for name, v in env.vars.items():
        if z3.is_int(v):
            continue
        lo, hi = env.varbounds.get(name, (None, None))
        if hi is None:
            nice.append(v <= 16)
        nice.append(z3.ToReal(z3.ToInt(v * 16)) == v * 16)
        if interior and lo is not None and hi is not None and hi > lo:
            inner += [v >= lo + (hi - lo) / 8.0, v <= hi - (hi - lo) / 8.0]
    if inner:
        for extra in (nice + inner, inner):
            r, m = ctx.solve(extra, 10000, full=True)
            if m is not None:
                return model_inputs(env, m)
    nonlin = any(vs & ctx.defined_ids for vs in ctx.cond_vars)
    if not nonlin:
        for extra in (nice, []):
            r, m = ctx.solve(extra, 10000, full=True)
            if m is not None:
                return model_inputs(env, m)
    # non-linear path condition the solver cannot model: fall back to the constraints that mention input
    # variables only (definitions of derived variables are always satisfiable).  The input may then leave
    # this path, which is harmless: the claims must hold on every path of the concrete run.
    sub = [c for c, vs in zip(ctx.conds, ctx.cond_vars) if vs <= ctx.input_ids]
    for extra in (nice, []):
        s_ = z3.Solver()
        s_.set("timeout", 10000)
        s_.add(*sub)
        s_.add(*extra)
        if s_.check() == z3.sat:
            return model_inputs(env, s_.model())
    return None


def _round(d):
    return {k: (round(v, 6) if isinstance(v, float) else v) for k, v in list(d.items())[:40]}


def _tr(trace):
    return "".join("T" if d else "F" for d in trace)[:200]


def _where(e):
    tb = traceback.extract_tb(e.__traceback__)
    fr = [f for f in tb if "/verif/vt/" not in f.filename] or list(tb)
    f = fr[-1]
    return "%s:%d:%s" % (f.filename, f.lineno, f.name)


def source_hashes(modules):
    out = {}
    for m in modules:
        try:
            f = inspect.getsourcefile(m) if not isinstance(m, str) else m
            out[os.path.relpath(f, "/")] = hashlib.sha256(open(f, "rb").read()).hexdigest()[:16]
        except Exception as e:  # pragma: no cover
            out[str(m)] = "unreadable: %s" % e
    return out
