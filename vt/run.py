"""vchk entry: run all harnesses of one property, aggregate, write evidence, report.

exit 0  property held on everything explored (KNOWN-FINDING lines allowed)
exit 1  reproduced violation not listed in known_findings.jsonl (VIOLATION line printed)
exit 3  the machinery itself failed (engine error / fatal worker) - never a success
"""
import argparse
import concurrent.futures as cf
import hashlib
import importlib
import json
import os
import re
import shutil
import subprocess
import sys
import tempfile
import time

VERIF = os.path.dirname(os.path.dirname(os.path.abspath(__file__)))
EVID = os.path.join(VERIF, "evidence")
REPLAYS = os.path.join(VERIF, "replays")
KNOWN = os.path.join(VERIF, "known_findings.jsonl")


def load_known(prop):
    out = []
    if os.path.exists(KNOWN):
        for line in open(KNOWN):
            line = line.strip()
            if not line or line.startswith("#"):
                continue
            d = json.loads(line)
            if d.get("property") == prop and d.get("status") == "known":
                out.append(d)
    return out


def match_known(known, harness, label, entry=None):
    for k in known:
        if re.fullmatch(k["harness"], harness) and re.fullmatch(k["label"], label):
            exc = k.get("exc_type")
            if exc and (entry or {}).get("replay", {}).get("exc_type") != exc:
                continue
            return k
    return None


def run_worker(py, prop, h, tier, scratch, env):
    out = os.path.join(scratch, hashlib.md5(h.name.encode()).hexdigest() + ".json")
    log = out + ".log"
    hard = h.opts.get("hard_timeout_thorough" if tier == "thorough" else "hard_timeout", 2400 if tier == "thorough" else 900)
    t0 = time.time()
    deadline = float(env.get("VT_DEADLINE", "0") or 0)
    if deadline:
        # the quick tier as a whole is boxed (a check "run on every change" is stopped by its user after 900 s):
        # what has not finished by then is reported as inconclusive, never as held
        left = deadline - t0
        if left < 15:
            return {"harness": h.name, "prop": prop, "hard_timeout": "0 (not started: the tier's overall time box was reached)"}
        hard = min(hard, left)
    try:
        with open(log, "w") as lf:
            p = subprocess.run([py, "-u", "-m", "vt.worker", prop, h.name, out, tier], cwd=VERIF, env=env, stdout=lf, stderr=subprocess.STDOUT, timeout=hard)
        rc = p.returncode
    except subprocess.TimeoutExpired:
        rc = "timeout"
    if os.path.exists(out):
        res = json.load(open(out))
    else:
        tail = open(log).read()[-1500:] if os.path.exists(log) else ""
        res = {"harness": h.name, "prop": prop, "fatal": "worker produced no result (rc=%s after %.0fs)" % (rc, time.time() - t0), "traceback": tail}
        if rc == "timeout":
            res = {"harness": h.name, "prop": prop, "hard_timeout": hard}
    return res


def main(argv=None):
    ap = argparse.ArgumentParser()
    ap.add_argument("prop")
    ap.add_argument("--tier", default=os.environ.get("VERIF_TIER", "quick"), choices=["quick", "thorough"])
    ap.add_argument("--replay")
    ap.add_argument("--jobs", type=int, default=int(os.environ.get("VT_JOBS", "0")) or min(16, os.cpu_count() or 4))
    ap.add_argument("--only", help="regex on harness names (debugging; evidence marks the run as partial)")
    ap.add_argument("--list", action="store_true")
    ap.add_argument("--no-evidence", action="store_true")
    a = ap.parse_args(argv)
    prop = a.prop.upper()
    seed = int(os.environ.get("VERIF_SEED", "0") or 0)
    t0 = time.time()

    scratch = tempfile.mkdtemp(prefix="vchk-%s-" % prop)
    try:
        return _main(a, prop, seed, t0, scratch)
    finally:
        shutil.rmtree(scratch, ignore_errors=True)


def _main(a, prop, seed, t0, scratch):
    from vt import repo
    so = repo.build_extension(scratch)
    os.environ["VT_SCRATCH"] = scratch     # workers create their own temporary directories inside it; removed with it
    os.environ["VT_SPECPART_SO"] = so
    repo.setup(so)
    from vt import harness as H
    mod = importlib.import_module("vt.props." + prop.lower())
    meta = getattr(mod, "META", {})
    allh = [h for h in H.REGISTRY.get(prop, []) if a.tier in h.tiers]
    if a.only:
        allh = [h for h in allh if re.search(a.only, h.name)]
    if a.list:
        for h in allh:
            print(h.name)
        return 0

    if a.replay:
        d = json.load(open(a.replay))
        h = H.find(prop, d["harness"])
        if h.opts.get("custom"):
            out = h.opts["replay"](d)
        else:
            out = H.run_concrete(h, d["inputs"])
        print(json.dumps(out, indent=1, default=str))
        bad = out["status"] in ("failed", "exception")
        print("replay: %s" % ("REPRODUCED" if bad else "not reproduced (%s)" % out["status"]))
        return 1 if bad else 0

    env = dict(os.environ)
    env["PYTHONPATH"] = VERIF + os.pathsep + env.get("PYTHONPATH", "")
    env["VERIF_SEED"] = str(seed)
    if a.tier == "quick":
        env["VT_DEADLINE"] = str(t0 + float(os.environ.get("VT_QUICK_BOX", "780")))
    py = sys.executable
    results = []
    with cf.ThreadPoolExecutor(max_workers=a.jobs) as ex:
        futs = {ex.submit(run_worker, py, prop, h, a.tier, scratch, env): h for h in sorted(allh, key=lambda h: -h.opts.get("weight", 1))}
        for f in cf.as_completed(futs):
            results.append(f.result())
    results.sort(key=lambda r: r["harness"])

    known = load_known(prop)
    os.makedirs(REPLAYS, exist_ok=True)
    viol_lines, known_lines, fatal = [], [], []
    tot = dict(paths=0, decisions=0, sym_decisions=0, nontrivial=0, queries=0, obligations=0, trivial=0, discharged=0,
               inconclusive=0, spurious=0, violations=0, witness=0, solver_time=0.0, infeasible=0, via_abs=0)
    samples, per_h, budgets, stubs, labels = [], [], [], set(), set()
    undecided = {}
    seen_known = set()
    for r in results:
        if "fatal" in r:
            fatal.append("%s: %s" % (r["harness"], r["fatal"]))
            per_h.append({"harness": r["harness"], "fatal": r["fatal"], "traceback": r.get("traceback", "")[-800:]})
            continue
        if "hard_timeout" in r:
            budgets.append("%s: killed at hard timeout %ss (inconclusive)" % (r["harness"], r["hard_timeout"]))
            per_h.append({"harness": r["harness"], "inconclusive": "hard timeout"})
            tot["inconclusive"] += 1
            continue
        tot["paths"] += r.get("paths", 0)
        tot["infeasible"] += r.get("infeasible", 0)
        tot["decisions"] += r.get("decisions", 0)
        tot["sym_decisions"] += r.get("sym_decisions", 0)
        tot["nontrivial"] += r.get("nontrivial_paths", 0)
        tot["queries"] += r.get("queries", 0)
        tot["obligations"] += r.get("obligations", 0)
        tot["trivial"] += r.get("trivial", 0)
        tot["discharged"] += r.get("discharged", 0)
        tot["via_abs"] += r.get("via_abstraction", 0)
        tot["inconclusive"] += len(r.get("inconclusive", []))
        tot["spurious"] += len(r.get("spurious", []))
        for kind in ("inconclusive", "spurious"):
            for v in r.get(kind, []):
                key = (kind, r["harness"], str(v.get("label") if isinstance(v, dict) else v)[:160])
                undecided[key] = undecided.get(key, 0) + 1
        tot["witness"] += r.get("witness_validated", 0)
        tot["solver_time"] += r.get("solver_time", 0.0)
        stubs.update(r.get("stubs", []))
        labels.update(r.get("labels", []))
        if r.get("budget"):
            budgets.append("%s: %s" % (r["harness"], r["budget"]))
        for e in r.get("engine_errors", []):
            fatal.append("%s: engine error: %s" % (r["harness"], str(e.get("error"))[:300]))
        for s in r.get("samples", [])[:1]:
            s = dict(s)
            s["harness"] = r["harness"]
            samples.append(s)
        nv = 0
        for v in r.get("violations", []):
            k = match_known(known, r["harness"], v["label"], v)
            if k is not None:
                key = (k["harness"], k["label"])
                if key not in seen_known:
                    seen_known.add(key)
                    known_lines.append("KNOWN-FINDING: property=%s %s" % (prop, k["what"]))
                continue
            nv += 1
            tot["violations"] += 1
            if nv > 3:
                continue  # at most three replay files per harness
            hid = hashlib.md5((r["harness"] + v["label"] + json.dumps(v.get("inputs"), sort_keys=True, default=str)).encode()).hexdigest()[:10]
            path = os.path.join(REPLAYS, "%s-%s.json" % (prop, hid))
            with open(path, "w") as f:
                json.dump({"property": prop, "harness": r["harness"], "label": v["label"], "kind": v.get("kind"), "inputs": v.get("inputs"),
                           "info": v.get("info"), "replay_result": v.get("replay"), "trace": v.get("trace"), "repo_head": repo.git_head()}, f, indent=1, default=str)
            viol_lines.append("VIOLATION property=%s replay=%s   # %s :: %s%s" % (prop, path, r["harness"], v["label"], (" [float replay fails: %s]" % "; ".join(map(str, v["float_replay_fails"]))) if v.get("float_replay_fails") else ""))
        per_h.append({k: r.get(k) for k in ("harness", "paths", "infeasible", "sym_decisions", "obligations", "trivial", "discharged", "queries", "witness_validated", "budget", "wall_s")}
                     | {"inconclusive": len(r.get("inconclusive", [])), "spurious": len(r.get("spurious", [])), "violations": len(r.get("violations", [])), "solver_time": round(r.get("solver_time", 0.0), 2)}
                     | ({"extra": r["extra"]} if "extra" in r else {}))

    wall = time.time() - t0
    files = meta.get("encoded_files", [])
    ev = {
        "property_id": prop, "tier": a.tier, "seed": seed, "level": meta.get("level", "model_checking"),
        "coverage": {
            "states": max(tot["paths"], 0), "transitions": tot["decisions"] + tot["obligations"],
            "traces_validated_against_impl": tot["witness"] + tot["spurious"] + tot["violations"],
            "samples": samples[:6] or [{"note": "no path reached a claim"}],
            "evaluations": tot["queries"], "distinct_nontrivial": tot["nontrivial"],
            "rule": "states = feasible paths of the real code explored symbolically; transitions = data-dependent branch decisions taken on them plus obligations stated at their ends; one evaluation = one SMT query (path feasibility or obligation); a path is a maximal feasible sequence of data-dependent branch outcomes of the real code; it is counted non-trivial if it took at least one symbolic decision or needed at least one non-syntactic solver obligation, and distinct by its decision sequence within its harness",
            "obligations": tot["obligations"], "discharged": tot["discharged"], "discharged_syntactically": tot["trivial"], "discharged_via_linear_form_abstraction": tot["via_abs"],
            "inconclusive": tot["inconclusive"], "spurious_models_not_reproduced": tot["spurious"],
            "feasible_paths": tot["paths"], "infeasible_prefixes": tot["infeasible"], "symbolic_forks": tot["sym_decisions"],
            "solver_time_s": round(tot["solver_time"], 2), "harnesses": per_h,
            "undecided_obligations": [{"kind": k[0], "harness": k[1], "label": k[2], "count": n} for k, n in sorted(undecided.items())][:60],
            "budget_exceeded": budgets, "exhaustive": not budgets and not fatal and tot["inconclusive"] == 0,
            "functions_encoded": meta.get("encoded", []),
            "source_sha256": H.source_hashes([os.path.join(repo.ROOT, f) for f in files]),
            "bounds": meta.get("bounds", ""), "outside_claim": meta.get("outside", ""),
            "stubs_in_force": sorted(stubs), "obligation_labels": sorted(labels)[:80],
            "known_findings_matched": known_lines, "repo_root": repo.ROOT, "repo_head": repo.git_head(),
            "partial_run": bool(a.only), "machinery_errors": fatal[:10],
            "checker_cmd": "./vchk %s --tier %s" % (prop, a.tier),
            "trusted_base": ["z3 %s" % __import__("z3").get_version_string(), "CPython/numpy/xarray object-dtype evaluation order", "stubs listed in stubs_in_force", "reference definitions in vt/refs", "clang 14 IR generation (engine L)"],
        },
        "assumptions": meta.get("assumptions", []),
        "wall_s": round(wall, 2), "violations": tot["violations"],
    }
    if not a.no_evidence:
        os.makedirs(EVID, exist_ok=True)
        with open(os.path.join(EVID, prop + ".json"), "w") as f:
            json.dump(ev, f, indent=1, default=str)

    print("%s tier=%s harnesses=%d paths=%d queries=%d obligations=%d discharged=%d inconclusive=%d spurious=%d witness=%d violations=%d wall=%.0fs"
          % (prop, a.tier, len(results), tot["paths"], tot["queries"], tot["obligations"], tot["discharged"], tot["inconclusive"], tot["spurious"], tot["witness"], tot["violations"], wall))
    for b in budgets:
        print("INCONCLUSIVE(budget): " + b)
    for k, n in sorted(undecided.items())[:20]:
        print("NOTE %s x%d: %s :: %s" % (("INCONCLUSIVE(solver)" if k[0] == "inconclusive" else "SPURIOUS(model not reproduced on the real code)"), n, k[1], k[2]))
    for line in known_lines:
        print(line)
    for line in viol_lines:
        print(line)
    if viol_lines:
        return 1
    if fatal:
        for f_ in fatal[:10]:
            print("MACHINERY-ERROR: " + f_)
        return 3
    if tot["obligations"] == 0:
        print("MACHINERY-ERROR: no obligation was reached (vacuous run)")
        return 3
    return 0


if __name__ == "__main__":
    sys.exit(main())
