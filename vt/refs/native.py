"""Builders of model-native in-memory datasets (WW3, SWAN netCDF, WWM, ERA5, NDBC) with symbolic data.

Each builder returns (dataset, info) where info holds the native arrays and coordinates needed by
the independent reference conversions in the harnesses.
"""
import math

import numpy as np
import xarray as xr

TIMES = np.array("2021-03-01T00", dtype="datetime64[ns]") + np.arange(4) * np.timedelta64(1, "h")


def _obj(env):
    return object if env.sym else float


def ww3(env, nt=1, ns=2, freq=(0.05, 0.1, 0.2), dirs=(90.0, 0.0, 270.0, 180.0), latlon_time=True, winds=True):
    """WW3 station file layout: efth(time, station, frequency, direction) in m2 s / rad, directions in
    degrees GOING-TO (any order), longitude/latitude (time, station), wnd, wnddir, dpt."""
    f, d = np.array(freq, dtype=float), np.array(dirs, dtype=float)
    e = env.array("efth", (nt, ns, len(f), len(d)), lo=0.0)
    ds = xr.Dataset(coords={"time": TIMES[:nt], "station": np.arange(1, ns + 1), "frequency": f, "direction": d})
    ds["efth"] = (("time", "station", "frequency", "direction"), e)
    lon = np.array([[150.0 + s + 0.01 * t for s in range(ns)] for t in range(nt)])
    lat = np.array([[-30.0 - s for s in range(ns)] for t in range(nt)])
    if latlon_time:
        ds["longitude"] = (("time", "station"), lon)
        ds["latitude"] = (("time", "station"), lat)
    else:
        ds["longitude"] = (("station",), lon[0])
        ds["latitude"] = (("station",), lat[0])
    if winds:
        ds["wnd"] = (("time", "station"), np.full((nt, ns), 7.5))
        ds["wnddir"] = (("time", "station"), np.full((nt, ns), 200.0))
        ds["dpt"] = (("time", "station"), np.full((nt, ns), 55.0))
    ds["station_name"] = (("station", "string16"), np.zeros((ns, 16), dtype="S1"))
    return ds, dict(e=e.copy(), f=f, d=d, lon=lon, lat=lat)


def ncswan(env, nt=1, ns=2, freq=(0.05, 0.1, 0.2), dirs_deg=(0.0, 90.0, 180.0, 270.0), winds=True):
    """SWAN netCDF layout: density(time, points, frequency, direction) in m2/Hz/rad, direction in RADIANS
    (nautical), longitude/latitude(points), xwnd/ywnd, depth."""
    f = np.array(freq, dtype=float)
    drad = np.radians(np.array(dirs_deg, dtype=float))
    e = env.array("density", (nt, ns, len(f), len(drad)), lo=0.0)
    ds = xr.Dataset(coords={"time": TIMES[:nt], "frequency": f, "direction": drad})
    ds["density"] = (("time", "points", "frequency", "direction"), e)
    ds["longitude"] = (("points",), 150.0 + np.arange(ns))
    ds["latitude"] = (("points",), -30.0 - np.arange(ns))
    u = v = None
    if winds:
        u = env.array("xwnd", (nt, ns), lo=-30.0, hi=30.0)
        v = env.array("ywnd", (nt, ns), lo=-30.0, hi=30.0)
        ds["xwnd"] = (("time", "points"), u)
        ds["ywnd"] = (("time", "points"), v)
        ds["depth"] = (("time", "points"), np.full((nt, ns), 33.0))
    return ds, dict(e=e.copy(), f=f, drad=drad, ddeg=np.array(dirs_deg, dtype=float), u=None if u is None else u.copy(), v=None if v is None else v.copy())


def wwm(env, nt=1, ns=2, freq=(0.05, 0.1, 0.2), dirs_deg=(0.0, 90.0, 180.0, 270.0), winds=True):
    """WWM layout: AC(ocean_time, nbstation, nfreq, ndir) action density N(sigma, theta) [m2 s / rad / (rad/s)],
    SPSIG(nfreq) angular frequency rad/s, SPDIR(ndir) radians, lon/lat(nbstation), Uwind/Vwind, DEP."""
    f = np.array(freq, dtype=float)
    sig = 2 * np.pi * f
    drad = np.radians(np.array(dirs_deg, dtype=float))
    e = env.array("AC", (nt, ns, len(f), len(drad)), lo=0.0)
    ds = xr.Dataset(coords={"ocean_time": TIMES[:nt]})
    ds["AC"] = (("ocean_time", "nbstation", "nfreq", "ndir"), e)
    ds["SPSIG"] = (("nfreq",), sig)
    ds["SPDIR"] = (("ndir",), drad)
    ds["lon"] = (("nbstation",), 150.0 + np.arange(ns))
    ds["lat"] = (("nbstation",), -30.0 - np.arange(ns))
    u = v = None
    if winds:
        u = env.array("Uwind", (nt, ns), lo=-30.0, hi=30.0)
        v = env.array("Vwind", (nt, ns), lo=-30.0, hi=30.0)
        ds["Uwind"] = (("ocean_time", "nbstation"), u)
        ds["Vwind"] = (("ocean_time", "nbstation"), v)
        ds["DEP"] = (("ocean_time", "nbstation"), np.full((nt, ns), 12.0))
    return ds, dict(e=e.copy(), f=f, sig=sig, drad=drad, ddeg=np.array(dirs_deg, dtype=float), u=None if u is None else u.copy(), v=None if v is None else v.copy())


def era5(env, nt=1, nlat=1, nlon=2, nf=3, nd=4, missing=((0, 0, 0, 1, 2),), native_names=False):
    """ERA5 layout after read_netcdf's renaming: efth(time, lat, lon, freq, dir) holding log10 of the
    density per radian (d2fd), NaN for missing values."""
    x = env.array("d2fd", (nt, nlat, nlon, nf, nd), lo=-8.0, hi=3.0)
    x = np.array(x, dtype=_obj(env))
    miss = [m for m in missing if all(i < n for i, n in zip(m, x.shape))]
    for m in miss:
        x[m] = float("nan")
    ds = xr.Dataset(coords={"time": TIMES[:nt], "lat": -30.0 - np.arange(nlat), "lon": 150.0 + np.arange(nlon), "freq": np.arange(nf), "dir": np.arange(nd)})
    ds["efth"] = (("time", "lat", "lon", "freq", "dir"), x)
    if native_names:
        # as the file holds it: d2fd(time, frequency, direction, latitude, longitude) with index coordinates 1..n
        ds = ds.rename({"efth": "d2fd", "freq": "frequency", "dir": "direction", "lat": "latitude", "lon": "longitude"})
        ds = ds.assign_coords(frequency=np.arange(1, nf + 1), direction=np.arange(1, nd + 1))
    return ds, dict(x=x.copy(), missing=miss)


def ndbc(env, nt=2, freq=(0.05, 0.1, 0.2), directional=True, alt_names=False):
    """NDBC netCDF layout: spectral_wave_density(time, frequency) (+ mean_wave_dir, principal_wave_dir,
    wave_spectrum_r1, wave_spectrum_r2 when directional), optionally the alternative variable names."""
    f = np.array(freq, dtype=float)
    tname, fname, ename = ("waveTime", "waveFrequency", "waveEnergyDensity") if alt_names else ("time", "frequency", "spectral_wave_density")
    ef = env.array("ef", (nt, len(f)), lo=0.0)
    ds = xr.Dataset(coords={tname: TIMES[:nt], fname: f})
    ds[ename] = ((tname, fname), ef)
    info = dict(ef=ef.copy(), f=f)
    if directional:
        info["a1"] = env.array("alpha1", (nt, len(f)), lo=0.0, hi=360.0)
        info["a2"] = env.array("alpha2", (nt, len(f)), lo=0.0, hi=360.0)
        info["r1"] = env.array("r1", (nt, len(f)), lo=0.0, hi=1.0)
        info["r2"] = env.array("r2", (nt, len(f)), lo=0.0, hi=1.0)
        ds["mean_wave_dir"] = ((tname, fname), info["a1"])
        ds["principal_wave_dir"] = ((tname, fname), info["a2"])
        ds["wave_spectrum_r1"] = ((tname, fname), info["r1"])
        ds["wave_spectrum_r2"] = ((tname, fname), info["r2"])
    return ds, info
