"""Concrete grid families shared by the harnesses (coordinates are concrete, data symbolic)."""
import numpy as np

GRIDS = {
    # log spacing, fmax > 0.333 (tail on), 4 uniform directions from 0
    "G1": dict(freq=[0.05, 0.1, 0.2, 0.4], dir=[0.0, 90.0, 180.0, 270.0]),
    # irregular spacing, fmax < 0.333 (tail off), 3 directions offset by 5 deg
    "G2": dict(freq=[0.06, 0.11, 0.13, 0.30], dir=[5.0, 125.0, 245.0]),
    # 3 x 2
    "G3": dict(freq=[0.1, 0.2, 0.35], dir=[0.0, 180.0]),
    # uniform frequency spacing (df-weighting immaterial), 4 directions offset
    "U4": dict(freq=[0.1, 0.2, 0.3, 0.4], dir=[20.0, 110.0, 200.0, 290.0]),
    # uniformly spaced SECTOR stored across the 0/360 seam (not a full circle)
    "PS": dict(freq=[0.1, 0.2, 0.4], dir=[300.0, 330.0, 0.0, 30.0]),
    # single frequency / single direction / two bins
    "F1": dict(freq=[0.2], dir=[0.0, 120.0, 240.0]),
    "D1": dict(freq=[0.08, 0.16, 0.4], dir=[45.0]),
    "F2": dict(freq=[0.25, 0.5], dir=[10.0, 190.0]),
    # 5-6 frequencies
    "G5": dict(freq=[0.04, 0.06, 0.09, 0.135, 0.2], dir=[0.0, 90.0, 180.0, 270.0]),
    "G6": dict(freq=[0.05, 0.07, 0.1, 0.2, 0.3, 0.45], dir=[30.0, 150.0, 270.0]),
    # 6 and 8 directions, dyadic offset
    "D6": dict(freq=[0.1, 0.2, 0.3], dir=[7.5, 67.5, 127.5, 187.5, 247.5, 307.5]),
    "D8": dict(freq=[0.1, 0.4], dir=[0.0, 45.0, 90.0, 135.0, 180.0, 225.0, 270.0, 315.0]),
    # two-direction sector (20 deg apart): relabelling by 350 puts the 0/360 seam between the two bins
    "S2": dict(freq=[0.1, 0.2, 0.4], dir=[0.0, 20.0]),
    # the same sector stored across the seam
    "S2W": dict(freq=[0.1, 0.2, 0.4], dir=[350.0, 10.0]),
}


def get(name):
    g = GRIDS[name]
    return np.array(g["freq"], dtype=float), np.array(g["dir"], dtype=float)
