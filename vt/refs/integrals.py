"""Reference definitions of the integrated wave parameters (independent of wavespectra).

All functions take E as a 2-D array-like [nf][nd] of numbers (floats or symbolic reals),
freq [nf], dirs [nd] (floats) and use only + - * / so they work for both.  Square-root
valued statistics are returned squared (suffix 2) so that no solver-side root is needed.
"""
import math

import numpy as np

G = 9.80665  # not used by wavespectra's 1.56 deep-water rule; kept for dispersion checks
TAIL_FMAX = 0.333


def widths_f(freq):
    """Bin widths: centred differences inside, one-sided at the ends, 1 for a single bin."""
    n = len(freq)
    if n == 1:
        return [1.0]
    w = []
    for i in range(n):
        if i == 0:
            w.append(freq[1] - freq[0])
        elif i == n - 1:
            w.append(freq[-1] - freq[-2])
        else:
            w.append((freq[i + 1] - freq[i - 1]) / 2.0)
    return [float(x) for x in w]


def width_d(dirs):
    """Direction bin width of a uniformly spaced grid (full circle or a sector, stored in any
    order): the smallest circular gap between two distinct directions; 1 for a single direction."""
    n = len(dirs)
    if n == 1:
        return 1.0
    s = sorted(float(x) % 360.0 for x in dirs)
    gaps = [b - a for a, b in zip(s, s[1:])] + [s[0] + 360.0 - s[-1]]
    return min(g for g in gaps if g > 0)


def oned(E, dirs):
    dd = width_d(dirs)
    return [sum(row) * dd for row in E]


def m0_tail(E, freq, dirs, tail=True):
    e1 = oned(E, dirs)
    df = widths_f(freq)
    m0 = sum(e * w for e, w in zip(e1, df))
    if tail and freq[-1] > TAIL_FMAX:
        m0 = m0 + 0.25 * e1[-1] * float(freq[-1])
    return m0


def hs2(E, freq, dirs, tail=True):
    return 16.0 * m0_tail(E, freq, dirs, tail)


def hrms2(E, freq, dirs, tail=True):
    return 8.0 * m0_tail(E, freq, dirs, tail)


def momf(E, freq, dirs, n):
    e1 = oned(E, dirs)
    df = widths_f(freq)
    return sum(e * w * float(f) ** n for e, w, f in zip(e1, df, freq))


def trig(dirs, theta=90.0):
    ang = [math.radians(180.0 + theta - d) for d in dirs]
    return [math.cos(a) for a in ang], [math.sin(a) for a in ang]


def momd1(E, dirs, theta=90.0):
    """First directional moments per frequency (sin, cos components)."""
    c, s = trig(dirs, theta)
    dd = width_d(dirs)
    msin = [sum(e * sj for e, sj in zip(row, s)) * dd for row in E]
    mcos = [sum(e * cj for e, cj in zip(row, c)) * dd for row in E]
    return msin, mcos


def dm_components(E, freq, dirs):
    """(A, B) with dm = (270 - atan2(A, B) in degrees) mod 360, A,B the df-weighted moments."""
    msin, mcos = momd1(E, dirs)
    df = widths_f(freq)
    a = sum(m * w for m, w in zip(msin, df))
    b = sum(m * w for m, w in zip(mcos, df))
    return a, b


def energy(E, freq, dirs):
    df = widths_f(freq)
    dd = width_d(dirs)
    return [[e * w * dd for e in row] for row, w in zip(E, df)]


def goda_num_den(E, freq, dirs):
    e1 = oned(E, dirs)
    df = widths_f(freq)
    m0 = sum(e * w for e, w in zip(e1, df))
    num = 2.0 * sum(e * e * float(f) * w for e, f, w in zip(e1, freq, df))
    return num, m0 * m0


def crsd(E, dirs, theta=90.0):
    c, s = trig(dirs, theta)
    dd = width_d(dirs)
    return [sum(e * cj * sj for e, cj, sj in zip(row, c, s)) * dd for row in E]


def wavenum_deep(freq):
    return [2.0 * math.pi / (1.56 / float(f) ** 2) for f in freq]


def chen_thomson(freq, depth):
    """Chen & Thomson rational approximation, returns k^2*depth^2 pieces: (k0h, a)."""
    out = []
    for f in freq:
        w = 2.0 * math.pi * f
        k0h = 0.10194 * w * w * depth
        a = 1.0 + 0.6522 * k0h + 0.4622 * k0h**2 + 0.0864 * k0h**4 + 0.0675 * k0h**5
        out.append((k0h, a))
    return out


def uss(E, freq, dirs, k, comp=None, theta=90.0):
    """Stokes drift magnitude (comp None) or component ('x' cos / 'y' sin)."""
    df = widths_f(freq)
    dd = width_d(dirs)
    c, s = trig(dirs, theta)
    wgt = {None: [1.0] * len(dirs), "x": c, "y": s}[comp]
    tot = 0
    for row, f, w, kk in zip(E, freq, df, k):
        tot = tot + sum(e * wj for e, wj in zip(row, wgt)) * (4.0 * math.pi * float(f) * kk) * w * dd
    return tot


def mss(E, freq, dirs, k):
    e1 = oned(E, dirs)
    df = widths_f(freq)
    return sum(e * kk * kk * w for e, kk, w in zip(e1, k, df))
