"""Independent reference for judging a watershed label map (no knowledge of the algorithm).

Grid: nk frequencies x nth directions, 8-neighbour adjacency, direction axis circular
(no wrap along frequency).  `levels[i][j]` is the discretised field (0 = highest energy).
"""
import itertools


def neighbours(nk, nth, i, j):
    out = set()
    for di in (-1, 0, 1):
        for dj in (-1, 0, 1):
            if di == 0 and dj == 0:
                continue
            ii = i + di
            if not (0 <= ii < nk):
                continue
            jj = (j + dj) % nth
            if (ii, jj) != (i, j):
                out.add((ii, jj))
    return out


def components(cells, nk, nth):
    """Connected components (8-connectivity, circular in j) of a set of cells."""
    cells = set(cells)
    comps = []
    while cells:
        seed = cells.pop()
        comp, stack = {seed}, [seed]
        while stack:
            c = stack.pop()
            for n in neighbours(nk, nth, *c):
                if n in cells:
                    cells.remove(n)
                    comp.add(n)
                    stack.append(n)
        comps.append(comp)
    return comps


def regional_minima(levels):
    """Plateaus (connected sets of equal level) none of whose outside neighbours is lower or equal."""
    nk, nth = len(levels), len(levels[0])
    by_level = {}
    for i in range(nk):
        for j in range(nth):
            by_level.setdefault(levels[i][j], []).append((i, j))
    out = []
    for lv, cells in by_level.items():
        for comp in components(cells, nk, nth):
            if all(levels[a][b] > lv for c in comp for (a, b) in neighbours(nk, nth, *c) if (a, b) not in comp):
                out.append(comp)
    return out


def judge(labels, levels):
    """Return a list of problems (empty = the map is a valid watershed partition of `levels`)."""
    nk, nth = len(labels), len(labels[0])
    flat = [labels[i][j] for i in range(nk) for j in range(nth)]
    lv = [levels[i][j] for i in range(nk) for j in range(nth)]
    problems = []
    if len(set(lv)) == 1:
        return problems  # a constant discretised field has no peaks; the caller decides what is expected
    if min(flat) < 1:
        problems.append("bins without a partition (label < 1): %s" % [(i, j) for i in range(nk) for j in range(nth) if labels[i][j] < 1][:4])
        return problems
    minima = regional_minima(levels)
    labs = sorted(set(flat))
    if labs != list(range(1, len(labs) + 1)):
        problems.append("labels are not 1..n: %s" % labs)
    if len(labs) != len(minima):
        problems.append("%d partitions for %d regional maxima" % (len(labs), len(minima)))
    for l in labs:
        cells = [(i, j) for i in range(nk) for j in range(nth) if labels[i][j] == l]
        if len(components(cells, nk, nth)) != 1:
            problems.append("partition %d is not connected" % l)
        inside = [m for m in minima if m & set(cells)]
        whole = [m for m in inside if m <= set(cells)]
        if len(inside) != 1 or len(whole) != 1:
            problems.append("partition %d holds %d regional maxima (%d entirely)" % (l, len(inside), len(whole)))
    return problems


def same_partition(a, b):
    """Two label maps are equal as set partitions."""
    fa = [x for r in a for x in r]
    fb = [x for r in b for x in r]
    m1, m2 = {}, {}
    for x, y in zip(fa, fb):
        if m1.setdefault(x, y) != y or m2.setdefault(y, x) != x:
            return False
    return True


def discretise(spec, ihmax):
    """Levels as the C code computes them (double arithmetic on float32 inputs)."""
    import numpy as np
    s = np.asarray(spec, dtype=np.float32).astype(np.float64)
    zmin, zmax = s.min(), s.max()
    if zmax - zmin < 1e-9:
        return None
    zp = (zmax - s).astype(np.float32).astype(np.float64)
    fact = (ihmax - 1.0) / (zmax - zmin)
    lev = np.maximum(0, np.minimum(ihmax - 1, np.round(zp * fact)))
    lev = np.where(zp * fact - np.floor(zp * fact) == 0.5, np.floor(zp * fact) + 1, lev)  # C round(): half away from zero
    return lev.astype(int).tolist()
